"""C12 - orbital element sets, anomalies and state configurations convert consistently.

1. TLC checks OrbitLattice.tla exhaustively (families x 88 orientations x 4 anomalies): the
   spec-level theorems (vis-viva, constant h, eccentricity vector, element / equinoctial round
   trips, coe<->eqe agreement, Kepler geometry) and emits one ORBIT record per lattice state:
   exact Cartesian state, classical elements (quarter-turn angles), singular case, admissible
   composite angle(s), equinoctial elements, E / M as exact coefficient triples.
2. spec -> impl: every ORBIT record, scaled to 2-4 sizes (and unscaled with mu = lattice mu),
   is replayed into the REAL eci2coe / coe2eci / eci2eqe / eqe2eci / coe2eqe / eqe2coe,
   ClassicalElements / EquinoctialElements, the anomaly conversions and the three StateConfig
   descriptions.  Comparison in Cartesian space after round trips; element VALUES only where
   the spec says they are defined (sets where the convention is open); documented ranges.
   The identity-orientation states are additionally composed in floating point with real-valued
   nodes / inclinations / perigee arguments / sizes: the expected anomaly stays the spec's exact
   quarter turn, and cosines of (anti-)parallel unit vectors overshoot [-1, 1] by an ulp in a fraction.
3. Threshold-straddling variants (eccentricity / inclination epsilon around the circular and
   equatorial limits of the code) and seeded generic orbits: relations only (round trips,
   cross conversions, ranges, class flags for decided variants); the case table comes from TLC.
4. Spec mutant: RetroConvention = "ccw" (the code as written) must be refuted by TLC.
5. OrbitLatticeConfig.tla: life-cycle of ONE configuration object (Build, Convert, Derive by model_copy(update) /
   copy / deepcopy / assignment, Convert ...) for the ECI, the four COE and the EQE field combinations; every
   behaviour is replayed on a real object and each toECI() compared with a freshly built object of the same
   fields (ConvertIgnoresHistory).  Spec mutant Memoise = TRUE must be refuted.
   OrbitLatticeDescribe.tla: all 64 subsets of the six angular COE fields per orbit class (minimal and
   over-specified descriptions, documented element set = the most specific one contained); every accepted
   description that describes the lattice orbit must convert to its state, a subset without element set
   must be rejected.  Spec mutant Pick = "last" must be refuted.
6. Seam arguments (a few ulps around 0 / whole turns) for every documented-range angle; the prograde
   equinoctial set of an exactly equatorial retrograde state must be refused, not answered with NaN.
"""
from __future__ import annotations

import math
import random
from datetime import datetime

import numpy as np

from .. import tlc
from ..core import Ctx
from . import _orbits as O

LEVEL = "model_checking"

# tolerances (relative to |r| and |v| of the compared state unless stated otherwise)
TOL_ACOS = 5e-7      # anything that went through the arccos-based extraction of eci2coe
TOL_EQE_RT = 1e-9     # ECI -> EQE -> ECI on arbitrary orbits: no threshold of the classical set is involved, no allowance
TOL_TIGHT = 1e-11    # forward conversions / arctan2-based paths
TOL_VALUE = 1e-11    # scale-free element values (e, h, k, p, q, cos i)
TOL_ANGLE = 5e-7     # angles extracted by arccos; 1e-9 for arctan2 based ones
ARCCOS_RES = 3e-8   # rad: below this arccos(h_z/|h|) cannot tell an inclination from 0 / pi
EPOCH = datetime(2021, 3, 30, 12, 0, 0)


class Sink:
    """Collects violations (few stored per signature, all counted)."""

    def __init__(self, ctx: Ctx):
        self.ctx = ctx
        self.count: dict = {}

    @staticmethod
    def canonical(sig: str) -> str:
        """Few, stable signatures per defect kind (the runner prints at most ten): the equatorial
        retrograde family is named by the conversion path only, seam values by the function only."""
        if sig.startswith("retro-equatorial-"):
            body = sig[len("retro-equatorial-"):].replace("-threshold", "")
            for suffix in ("-EE", "-EC", "-IE", "-IC"):
                if body.endswith(suffix):
                    body = body[: -len(suffix)]
            body = {"ClassicalElements-roundtrip": "coe-roundtrip", "config-coe-vs-eci": "coe-roundtrip",
                    "EquinoctialElements-fromCOE": "coe2eqe-disagrees", "ClassicalElements-fromEQE": "eqe2coe-disagrees"}.get(body, body)
            return "retro-equatorial-" + body
        if sig.startswith("angle-equals-2pi-"):
            return sig.split(".")[0]
        return sig

    def fail(self, sig: str, what: str, replay: dict):
        sig = self.canonical(sig)
        n = self.count.get(sig, 0)
        self.count[sig] = n + 1
        if n < 3:
            self.ctx.violation(sig, what, replay)


def _rel(x, y):
    """(relative position error, relative velocity error) of two 6-states."""
    x, y = np.asarray(x, float), np.asarray(y, float)
    if not np.all(np.isfinite(x)):
        return math.inf, math.inf
    return (float(np.linalg.norm(x[:3] - y[:3]) / np.linalg.norm(y[:3])),
            float(np.linalg.norm(x[3:] - y[3:]) / np.linalg.norm(y[3:])))


def _close(x, y, tol, allow=0.0):
    ep, ev = _rel(x, y)
    return ep <= tol + allow and ev <= tol + allow


def _prefix(case: str, retro: bool) -> str:
    return "retro-equatorial-" if (retro and case in ("EE", "EC")) else ""


def _range_check(sink: Sink, fn: str, name: str, val: float, replay: dict, hi: float = O.TWOPI):
    """Documented range [0, hi) - exactly hi gets its own signature (seam value)."""
    val = float(val)
    if 0.0 <= val < hi:
        return
    if val == hi:
        sink.fail(f"angle-equals-2pi-{fn}.{name}",
                  f"{fn} returned {name} = {val!r} although the documented range is [0, 2 pi)", replay)
    else:
        sink.fail(f"angle-out-of-range-{fn}.{name}", f"{fn} returned {name} = {val!r} outside [0, 2 pi)", replay)


# ------------------------------------------------------------------------------ lattice replay
class Impl:
    """The real functions (imported late so that VERIF_REPO / sched are in effect)."""

    def __init__(self):
        from resonaate.physics.bodies import Earth
        from resonaate.physics.orbits import anomaly, conversions, elements, utils
        from resonaate.physics import orbits
        from resonaate.scenario.config import state_config
        self.mu = Earth.mu
        self.radius = Earth.radius
        self.c = conversions
        self.a = anomaly
        self.el = elements
        self.u = utils
        self.sc = state_config
        self.ecc_limit = orbits.ECCENTRICITY_LIMIT
        self.inc_limit = orbits.INCLINATION_LIMIT


def _spec_angles(el: dict):
    """Candidate (raan, argp, anomaly) triples in radians for coe2eci built from the SPEC's elements:
    one candidate, or two for the equatorial retrograde composite angle (both admissible)."""
    case = el["case"]
    if case == "IE":
        return [(O.quarter(el["raan"]), O.quarter(el["argp"]), O.quarter(el["nu"]))]
    if case == "EE":
        return [(0.0, O.quarter(k), O.quarter(el["nu"])) for k in sorted({el["lonper_ccw"], el["lonper_motion"]})]
    if case == "IC":
        return [(O.quarter(el["raan"]), 0.0, O.quarter(el["arglat"]))]
    return [(0.0, 0.0, O.quarter(k)) for k in sorted({el["truelon_ccw"], el["truelon_motion"]})]


def _check_coe_values(sink, fn, coe, rec, S, replay, tol_angle=TOL_ANGLE):
    """Element values against the spec, only where the spec defines them."""
    el = rec["el"]
    case = el["case"]
    pre = _prefix(case, el["retro"])
    sma, ecc, inc, raan, argp, anom = (float(v) for v in coe)
    if abs(sma - S.sma) > 1e-11 * S.sma:
        sink.fail(f"{pre}{fn}-sma-{case}", f"{fn}: semi-major axis {sma} expected {S.sma}", replay)
    if abs(ecc - S.ecc) > TOL_VALUE:
        sink.fail(f"{pre}{fn}-ecc-{case}", f"{fn}: eccentricity {ecc} expected {S.ecc}", replay)
    if not (0.0 <= inc <= math.pi) or abs(math.cos(inc) - O.qf(el["cosi"])) > TOL_VALUE:
        sink.fail(f"{pre}{fn}-inc-{case}", f"{fn}: inclination {inc} expected cos i = {O.qf(el['cosi'])}", replay)
    for name, val in (("raan", raan), ("argp", argp), ("anomaly", anom)):
        _range_check(sink, fn, name, val, replay)
    exp = {}
    if case in ("IE", "IC"):
        exp["raan"] = (raan, {el["raan"]})
    if case == "IE":
        exp["argp"] = (argp, {el["argp"]})
    if case == "EE":
        exp["lonper"] = (argp, {el["lonper_ccw"], el["lonper_motion"]})
    if case in ("IE", "EE"):
        exp["true_anomaly"] = (anom, {el["nu"]})
    if case == "IC":
        exp["arglat"] = (anom, {el["arglat"]})
    if case == "EC":
        exp["truelon"] = (anom, {el["truelon_ccw"], el["truelon_motion"]})
    for name, (val, ks) in exp.items():
        if min(O.ang_diff(val, O.quarter(k)) for k in ks) > tol_angle:
            sink.fail(f"{pre}{fn}-{name}-{case}",
                      f"{fn}: {name} = {val} but the lattice orbit has {sorted(ks)} quarter turn(s)", replay)


def replay_lattice(ctx: Ctx, sink: Sink, I: Impl, orbits: list, cases: dict):
    c = I.c
    n = 0
    worst = {"coe_roundtrip": 0.0, "eqe_roundtrip": 0.0, "config": 0.0}
    for rec in orbits:
        el, eq = rec["el"], rec["eqe"]
        case, retro_orbit, retro = el["case"], el["retro"], eq["retro"]
        pre = _prefix(case, retro_orbit)
        ecc = O.qf(rec["e"])
        inc_spec = math.atan2(O.qf(el["sini"]), O.qf(el["cosi"]))
        lam_spec = math.fmod(O.triple(eq["lam"], ecc), O.TWOPI)
        if lam_spec < 0:
            lam_spec += O.TWOPI
        hkpq = [O.qf(eq[k]) for k in "hkpq"]
        for a_km in O.sizes_for(ecc, ctx.quick):
            S = O.Scaled(rec, a_km, I.mu)
            x = S.state(rec["r"], rec["v"])
            mu = S.mu
            key = (rec["fam"], tuple(map(tuple, (tuple(map(tuple, row)) for row in rec["rot"]))), rec["q"], a_km)
            rp = {"family": rec["fam"], "rot": rec["rot"], "q": rec["q"], "a_km": a_km, "mu": mu, "case": case,
                  "retro": retro_orbit, "state": x.tolist()}
            n += 1
            ctx.case(key, nontrivial=True,
                     sample={"family": rec["fam"], "case": case, "retro": retro_orbit, "q": rec["q"],
                             "a_km": a_km, "state": x.tolist()} if n in (1, 700, 1900) else None)
            try:
                # --- A/B: eci2coe values, ranges and the classical round trip
                coe = c.eci2coe(x, mu=mu)
                _check_coe_values(sink, "eci2coe", coe, rec, S, rp)
                back = c.coe2eci(*coe, mu=mu)
                ep, ev = _rel(back, x)
                if not (pre and max(ep, ev) > TOL_ACOS):
                    worst["coe_roundtrip"] = max(worst["coe_roundtrip"], ep, ev)
                if max(ep, ev) > TOL_ACOS:
                    sink.fail(f"{pre}coe-roundtrip-{case}",
                              f"coe2eci(eci2coe(x)) misses x by {ep:.3g} |r| ({ep * np.linalg.norm(x[:3]):.3g} "
                              f"length units), {ev:.3g} |v| on a lattice orbit of case {case} retro={retro_orbit}",
                              dict(rp, coe=[float(v) for v in coe], back=back.tolist()))
                # --- C: coe2eci on the spec's own elements (forward direction only)
                cands = _spec_angles(el)
                if not any(_close(c.coe2eci(S.sma, ecc, inc_spec, *ang, mu=mu), x, TOL_TIGHT) for ang in cands):
                    sink.fail(f"{pre}coe2eci-forward-{case}", "coe2eci on the exact lattice elements does not give the lattice state",
                              dict(rp, candidates=cands, inc=inc_spec))
                # --- D: equinoctial values and round trips
                eqv = c.eci2eqe(x, mu=mu, retro=retro)
                if abs(eqv[0] - S.sma) > 1e-11 * S.sma or max(abs(float(g) - e_) for g, e_ in zip(eqv[1:5], hkpq)) > TOL_VALUE:
                    sink.fail(f"eci2eqe-values-{case}", f"eci2eqe gave (a,h,k,p,q) = {[float(v) for v in eqv[:5]]} expected {[S.sma] + hkpq}", rp)
                _range_check(sink, "eci2eqe", "mean_longitude", eqv[5], rp)
                if O.ang_diff(float(eqv[5]), lam_spec) > 1e-10:
                    sink.fail(f"eci2eqe-meanlong-{case}", f"eci2eqe mean longitude {float(eqv[5])} expected {lam_spec}", rp)
                b2 = c.eqe2eci(*eqv, mu=mu, retro=retro)
                ep, ev = _rel(b2, x)
                worst["eqe_roundtrip"] = max(worst["eqe_roundtrip"], ep, ev)
                if max(ep, ev) > TOL_TIGHT:
                    sink.fail(f"eqe-roundtrip-{case}", f"eqe2eci(eci2eqe(x)) misses x by {ep:.3g} |r|", rp)
                if not _close(c.eqe2eci(S.sma, *hkpq, lam_spec, mu=mu, retro=retro), x, TOL_TIGHT):
                    sink.fail(f"eqe2eci-forward-{case}", "eqe2eci on the exact lattice elements does not give the lattice state", rp)
                # retro = True is a valid second parametrisation of every orbit that is not prograde equatorial
                if el["sini"][0] != 0:
                    for flag in (False, True):
                        if not _close(c.eqe2eci(*c.eci2eqe(x, mu=mu, retro=flag), mu=mu, retro=flag), x, TOL_TIGHT):
                            sink.fail(f"eqe-roundtrip-retro{int(flag)}-{case}", f"equinoctial round trip with retro={flag} misses x", rp)
                # --- E: classical <-> equinoctial
                eq_from_coe = c.coe2eqe(*coe, retro=retro)
                _range_check(sink, "coe2eqe", "mean_longitude", eq_from_coe[5], rp)
                if not _close(c.eqe2eci(*eq_from_coe, mu=mu, retro=retro), x, TOL_ACOS):
                    sink.fail(f"{pre}coe2eqe-disagrees-{case}", "eqe2eci(coe2eqe(eci2coe(x))) is not x: the two element sets describe different orbits", rp)
                if not any(max(abs(float(g) - e_) for g, e_ in zip(c.coe2eqe(S.sma, ecc, inc_spec, *ang, retro=retro)[1:5], hkpq)) <= 1e-9
                           and O.ang_diff(float(c.coe2eqe(S.sma, ecc, inc_spec, *ang, retro=retro)[5]), lam_spec) <= 1e-9
                           for ang in cands):
                    sink.fail(f"{pre}coe2eqe-values-{case}", "coe2eqe on the exact classical elements differs from the exact equinoctial elements", rp)
                coe_from_eq = c.eqe2coe(*eqv, retro=retro)
                _check_coe_values(sink, "eqe2coe", coe_from_eq, rec, S, rp, tol_angle=1e-9)
                if not _close(c.coe2eci(*coe_from_eq, mu=mu), x, 1e-10):
                    sink.fail(f"{pre}eqe2coe-disagrees-{case}", "coe2eci(eqe2coe(eci2eqe(x))) is not x", rp)
                # --- F/G: element classes and configuration objects (Earth's mu only)
                if a_km is not None:
                    _classes_and_config(sink, I, rec, S, x, coe, eqv, cands, inc_spec, hkpq, lam_spec, cases, rp, worst)
            except Exception as ex:  # noqa: BLE001 - an exception on a valid bound orbit is a violation
                sink.fail(f"{pre}exception-{case}-{type(ex).__name__}", f"conversion raised {ex!r} on a lattice orbit", rp)
        _lattice_anomalies(sink, I, rec, ecc)
    ctx.traces_validated += n
    ctx.extra["lattice_states_replayed"] = n
    ctx.extra["worst_relative_error_unflagged"] = worst


def _classes_and_config(sink, I, rec, S, x, coe, eqv, cands, inc_spec, hkpq, lam_spec, cases, rp, worst):
    el, eq = rec["el"], rec["eqe"]
    case, retro_orbit, retro = el["case"], el["retro"], eq["retro"]
    pre = _prefix(case, retro_orbit)
    ecc = S.ecc
    CE, EE = I.el.ClassicalElements, I.el.EquinoctialElements
    ce = CE.fromECI(x)
    if ce.is_inclined != (case in ("IE", "IC")) or ce.is_eccentric != (case in ("IE", "EE")):
        sink.fail(f"ClassicalElements-class-{case}", f"ClassicalElements flags inclined={ce.is_inclined} eccentric={ce.is_eccentric} on a {case} orbit", rp)
    for name in ("raan", "argp", "true_anomaly", "mean_anomaly"):
        _range_check(sink, "ClassicalElements", name, getattr(ce, name), rp)
    if abs(ce.period - S.period) > 1e-11 * S.period:
        sink.fail("ClassicalElements-period", f"period {ce.period} expected {S.period}", rp)
    if case in ("IE", "EE") and O.ang_diff(ce.mean_anomaly, O.triple(rec["meananom"], ecc)) > 3e-6:
        sink.fail(f"ClassicalElements-mean-anomaly-{case}", f"mean anomaly {ce.mean_anomaly} expected {O.triple(rec['meananom'], ecc)}", rp)
    if not _close(ce.toECI(), x, TOL_ACOS):
        sink.fail(f"{pre}ClassicalElements-roundtrip-{case}", "ClassicalElements.fromECI(x).toECI() is not x", rp)
    if not any(_close(CE(S.sma, ecc, inc_spec, *ang).toECI(), x, TOL_TIGHT) for ang in cands):
        sink.fail(f"{pre}ClassicalElements-forward-{case}", "ClassicalElements(exact elements).toECI() is not the lattice state", rp)
    if case in ("EE", "EC"):
        # singularityCheck: a redundant node angle W split off the composite angle keeps the orbit
        # (coe2eci of the split elements IS the lattice state, exactly, by EquatorialSplit)
        sg = -1 if retro_orbit else 1
        comp = el["lonper_motion"] if case == "EE" else el["truelon_motion"]
        for W in (1, 2, 3):
            rest = (comp - sg * W) % 4
            ang = (O.quarter(W), O.quarter(rest), O.quarter(el["nu"])) if case == "EE" else (O.quarter(W), 0.0, O.quarter(rest))
            if not _close(I.c.coe2eci(S.sma, ecc, inc_spec, *ang), x, TOL_TIGHT):
                sink.fail(f"{pre}coe2eci-forward-split-{case}", "coe2eci on split equatorial elements does not give the lattice state", dict(rp, angles=ang))
            elif not _close(CE(S.sma, ecc, inc_spec, *ang).toECI(), x, TOL_TIGHT):
                sink.fail(f"{pre}ClassicalElements-split-{case}", f"ClassicalElements(..., raan={ang[0]:.4f}, argp={ang[1]:.4f}, anomaly={ang[2]:.4f}).toECI() "
                          "differs from coe2eci of the same elements: the constructor moved the orbit", dict(rp, angles=ang))
    if not _close(CE.fromEQE(*eqv, retro=retro).toECI(), x, 1e-10):
        sink.fail(f"{pre}ClassicalElements-fromEQE-{case}", "ClassicalElements.fromEQE(eci2eqe(x)).toECI() is not x", rp)
    ee = EE.fromECI(x, retro=retro)
    if ee.is_retro != retro:
        sink.fail("EquinoctialElements-fromECI-drops-retro", f"EquinoctialElements.fromECI(x, retro={retro}).is_retro is {ee.is_retro}", rp)
    if not _close(ee.toECI(), x, TOL_TIGHT):
        sink.fail(("EquinoctialElements-fromECI-drops-retro" if ee.is_retro != retro else f"EquinoctialElements-roundtrip-{case}"),
                  f"EquinoctialElements.fromECI(x, retro={retro}).toECI() is not x", rp)
    _range_check(sink, "EquinoctialElements", "mean_longitude", ee.mean_longitude, rp)
    _range_check(sink, "EquinoctialElements", "eccentric_longitude", ee.eccentric_longitude, rp)
    if abs(math.cos(ee.eccentric_longitude) - O.qf(eq["cosF"])) > 1e-9 or abs(math.sin(ee.eccentric_longitude) - O.qf(eq["sinF"])) > 1e-9:
        sink.fail(f"EquinoctialElements-eccentric-longitude-{case}", "eccentric longitude differs from the exact (cos F, sin F)", rp)
    if not _close(EE(S.sma, *hkpq, lam_spec, retro=retro).toECI(), x, TOL_TIGHT):
        sink.fail(f"EquinoctialElements-forward-{case}", "EquinoctialElements(exact elements).toECI() is not the lattice state", rp)
    ee2 = EE.fromCOE(*coe, retro=retro)
    if ee2.is_retro != retro:
        sink.fail("EquinoctialElements-fromCOE-drops-retro", f"EquinoctialElements.fromCOE(..., retro={retro}).is_retro is {ee2.is_retro}", rp)
    elif not _close(ee2.toECI(), x, TOL_ACOS):
        sink.fail(f"{pre}EquinoctialElements-fromCOE-{case}", "EquinoctialElements.fromCOE(eci2coe(x)).toECI() is not x", rp)
    # configuration objects: the same orbit described three ways
    if np.linalg.norm(x[:3]) <= I.radius + 1.0:
        return
    sc = I.sc
    x_eci = sc.ECIStateConfig(position=x[:3].tolist(), velocity=x[3:].tolist()).toECI(EPOCH)
    if not _close(x_eci, x, 1e-15):
        sink.fail("config-eci", "ECIStateConfig.toECI() differs from the configured state", rp)
    slot = cases[case]
    ok = False
    x_coe_all = []
    for raan, argp, anom in cands:
        kw = {"semi_major_axis": S.sma, "eccentricity": ecc, "inclination": math.degrees(inc_spec),
              slot["anomaly"]: _deg(anom)}
        if slot["raan"]:
            kw["right_ascension"] = _deg(raan)
        if slot["argp"]:
            kw[slot["argp_slot"]] = _deg(argp)
        x_coe = sc.COEStateConfig(**kw).toECI(EPOCH)
        x_coe_all.append(x_coe.tolist())
        ep, ev = _rel(x_coe, x_eci)
        if max(ep, ev) <= 1e-10:
            ok = True
            worst["config"] = max(worst["config"], ep, ev)
    if not ok:
        sink.fail(f"{pre}config-coe-vs-eci-{case}", "COEStateConfig and ECIStateConfig descriptions of the same lattice orbit give different initial states",
                  dict(rp, coe_states=x_coe_all))
    x_eqe = sc.EQEStateConfig(semi_major_axis=S.sma, h=hkpq[0], k=hkpq[1], p=hkpq[2], q=hkpq[3],
                              mean_longitude=_deg(lam_spec), retrograde=retro).toECI(EPOCH)
    if not _close(x_eqe, x_eci, 1e-10):
        sink.fail(f"config-eqe-vs-eci-{case}", "EQEStateConfig and ECIStateConfig descriptions of the same lattice orbit give different initial states",
                  dict(rp, eqe_state=x_eqe.tolist()))


def _deg(rad: float) -> float:
    d = math.degrees(rad) % 360.0
    return 0.0 if d >= 360.0 else d


def _lattice_anomalies(sink, I, rec, ecc):
    """E and M at the lattice anomalies are exact: cos E, sin E rational, M a coefficient triple."""
    a = I.a
    nu = O.quarter(rec["q"])
    e_exp, m_exp = O.triple(rec["eccanom"], ecc), O.triple(rec["meananom"], ecc)
    rp = {"family": rec["fam"], "ecc": ecc, "nu": nu}
    got = {"trueAnom2EccAnom": (a.trueAnom2EccAnom(nu, ecc), e_exp), "trueAnom2MeanAnom": (a.trueAnom2MeanAnom(nu, ecc), m_exp),
           "eccAnom2MeanAnom": (a.eccAnom2MeanAnom(e_exp, ecc), m_exp), "eccAnom2TrueAnom": (a.eccAnom2TrueAnom(e_exp, ecc), nu),
           "meanAnom2EccAnom": (a.meanAnom2EccAnom(m_exp, ecc), e_exp), "meanAnom2TrueAnom": (a.meanAnom2TrueAnom(m_exp, ecc), nu)}
    for fn, (val, exp) in got.items():
        _range_check(sink, fn, "result", val, rp)
        if O.ang_diff(float(val), exp) > 1e-9:
            sink.fail(f"anomaly-{fn}", f"{fn} = {float(val)} expected {exp} (e = {ecc}, nu = {nu})", rp)
    e_got = float(got["trueAnom2EccAnom"][0])
    if abs(math.cos(e_got) - O.qf(rec["cosE"])) > 1e-12 or abs(math.sin(e_got) - O.qf(rec["sinE"])) > 1e-12:
        sink.fail("anomaly-eccentric-cos-sin", f"cos/sin of the eccentric anomaly differ from the exact rationals (e = {ecc}, nu = {nu})", rp)


# ------------------------------------------- lattice anomalies under real-valued orientations
REAL_INC_DEG = (0.001, 28.5, 63.4, 90.0, 98.0, 145.0, 179.9)
REAL_RAAN_DEG = (0, 10, 30, 45, 60, 90, 120, 135, 150, 180, 200, 225, 270, 300, 315, 330)
REAL_ARGP_DEG = (0, 60, 90, 180, 200, 270)
REAL_SMA_KM = (6700.0, 7000.0, 12345.678, 26560.0, 42164.0, 49999.9)


def replay_real_orientations(ctx: Ctx, sink: Sink, I: Impl, orbits: list, rng: random.Random):
    """The exact in-plane lattice state (the specification's state in the identity orientation:
    anomaly 0 / 90 / 180 / 270 deg, exact r, v, e) composed IN FLOATING POINT with real-valued
    nodes, inclinations, perigee arguments and sizes.  The anomaly expected from eci2coe is still the
    specification's exact quarter turn (argument of latitude = argp + anomaly on the circular family);
    only the orientation is real valued, so the angle-defining unit vectors are exactly (anti-)parallel
    up to rounding and the cosines land one ulp outside [-1, 1] in a fraction of the cases."""
    ident = [[[1, 1] if i == j else [0, 1] for j in range(3)] for i in range(3)]
    base = [o for o in orbits if o["rot"] == ident]
    if not base:
        raise tlc.MachineryError("no identity-orientation lattice states emitted")
    c = I.c
    n = 0
    for rec in base:
        ecc = O.qf(rec["e"])
        nu = O.quarter(rec["q"])
        # perigee above the Earth's surface (the statement's orbits): the smallest sizes are replaced by
        # multiples of the smallest admissible one for the eccentric families
        lo = max(6700.0, 6800.0 / (1.0 - ecc))
        sizes = [a for a in (REAL_SMA_KM[:2] + REAL_SMA_KM[3:5] if ctx.quick else REAL_SMA_KM) if a >= lo]
        sizes += [lo * f for f in (1.0, 1.0371, 1.21, 1.4142)][: (4 if ctx.quick else 6) - len(sizes)]
        for a_km in sizes:
            S = O.Scaled(rec, a_km, I.mu)
            r_pf, v_pf = S.pos(rec["r"]), S.vel(rec["v"])
            for inc_d in REAL_INC_DEG:
                r1 = O.rot1a(math.radians(inc_d))
                for raan_d in REAL_RAAN_DEG:
                    m_out = O.rot3a(math.radians(raan_d)) @ r1
                    for argp_d in REAL_ARGP_DEG:
                        m = m_out @ O.rot3a(math.radians(argp_d))
                        x = np.concatenate([m @ r_pf, m @ v_pf])
                        inc, raan, argp = math.radians(inc_d), math.radians(raan_d), math.radians(argp_d)
                        case = "IE" if ecc > 0 else "IC"
                        rp = {"family": rec["fam"], "q": rec["q"], "a_km": a_km, "inc_deg": inc_d, "raan_deg": raan_d,
                              "argp_deg": argp_d, "state": x.tolist()}
                        n += 1
                        ctx.case(("real", rec["fam"], rec["q"], a_km, inc_d, raan_d, argp_d), nontrivial=True,
                                 sample=rp if n == 1 else None)
                        try:
                            coe = c.eci2coe(x)
                            exp = {"raan": (coe[3], raan)}
                            if case == "IE":
                                exp["argp"] = (coe[4], argp)
                                exp["true_anomaly"] = (coe[5], nu)
                            else:
                                exp["arglat"] = (coe[5], argp + nu)
                            for name, (got, want) in exp.items():
                                _range_check(sink, "eci2coe", name, got, rp)
                                if O.ang_diff(float(got), want) > TOL_ANGLE:
                                    sink.fail(f"eci2coe-{name}-real-orientation-{case}",
                                              f"eci2coe: {name} = {float(got)} expected {want % O.TWOPI} (lattice anomaly {90 * rec['q']} deg, "
                                              f"i = {inc_d}, raan = {raan_d}, argp = {argp_d} deg, a = {a_km} km)", rp)
                            if abs(coe[0] - a_km) > 1e-9 * a_km or abs(coe[1] - ecc) > 1e-11 or abs(coe[2] - inc) > 1e-7:
                                sink.fail(f"eci2coe-shape-real-orientation-{case}", f"eci2coe (a, e, i) = {tuple(float(v) for v in coe[:3])} "
                                          f"expected ({a_km}, {ecc}, {inc})", rp)
                            if not _close(c.coe2eci(*coe), x, TOL_ACOS):
                                sink.fail(f"coe-roundtrip-real-orientation-{case}", "coe2eci(eci2coe(x)) is not x for a lattice anomaly in a real-valued orientation",
                                          dict(rp, coe=[float(v) for v in coe]))
                            if n % 7 == 0 and not _close(I.el.ClassicalElements.fromECI(x).toECI(), x, TOL_ACOS):
                                sink.fail(f"ClassicalElements-roundtrip-real-orientation-{case}", "ClassicalElements.fromECI(x).toECI() is not x", rp)
                        except Exception as ex:  # noqa: BLE001
                            sink.fail(f"exception-real-orientation-{case}-{type(ex).__name__}", f"conversion raised {ex!r}", rp)
    ctx.traces_validated += n
    ctx.extra["lattice_anomalies_in_real_orientations"] = n


# ------------------------------------------------- configuration objects: life-cycle sequences
def _config_forms(I: Impl, orbits: list, quick: bool):
    """Concrete field values for the abstract valuations of OrbitLatticeConfig.tla: per form a list of
    (class, [(field name, base value, alternative value), ...]) built from lattice orbits (base) and a
    second orbit of the same form (alternative)."""
    sc = I.sc

    def pick(case, retro, n):
        out = [o for o in orbits if o["el"]["case"] == case and o["el"]["retro"] == retro and o["q"] in (1, 3)]
        return out[:: max(1, len(out) // n)][:n]

    def ang(k, d):
        return (90.0 * k + d) % 360.0
    n = 1 if quick else 4
    forms = {"eci": [], "coe_IE": [], "coe_EE": [], "coe_IC": [], "coe_EC": [], "eqe": []}
    for rec in pick("IE", False, n) + pick("IE", True, n):
        el, eq = rec["el"], rec["eqe"]
        ecc = O.qf(rec["e"])
        S = O.Scaled(rec, O.sizes_for(ecc, True)[1], I.mu)
        inc = math.degrees(math.atan2(O.qf(el["sini"]), O.qf(el["cosi"])))
        forms["coe_IE"].append((sc.COEStateConfig, [
            ("semi_major_axis", S.sma, S.sma * 1.07), ("eccentricity", ecc, 0.5 * ecc + 0.01),
            ("inclination", inc, inc + 20.0 if inc < 150.0 else inc - 20.0),
            ("right_ascension", ang(el["raan"], 0.0), ang(el["raan"], 37.5)),
            ("argument_periapsis", ang(el["argp"], 0.0), ang(el["argp"], 37.5)),
            ("true_anomaly", ang(el["nu"], 0.0), ang(el["nu"], 101.25))]))
        lam = math.degrees(O.triple(eq["lam"], ecc)) % 360.0
        h, k, p_, q_ = (O.qf(eq[c]) for c in "hkpq")
        forms["eqe"].append((sc.EQEStateConfig, [
            ("semi_major_axis", S.sma, S.sma * 1.07), ("h", h, h + 0.05), ("k", k, k - 0.05), ("p", p_, p_ + 0.1),
            ("q", q_, q_ - 0.1), ("mean_longitude", lam, (lam + 100.0) % 360.0), ("retrograde", False, True)]))
        x = S.state(rec["r"], rec["v"])
        forms["eci"].append((sc.ECIStateConfig, [("position", x[:3].tolist(), (1.03 * x[:3]).tolist()),
                                                 ("velocity", x[3:].tolist(), (0.98 * x[3:]).tolist())]))
    for retro in (False, True):
        for rec in pick("EE", retro, n):
            el, ecc = rec["el"], O.qf(rec["e"])
            S = O.Scaled(rec, O.sizes_for(ecc, True)[1], I.mu)
            i0 = 180.0 if retro else 0.0
            forms["coe_EE"].append((sc.COEStateConfig, [
                ("semi_major_axis", S.sma, S.sma * 1.07), ("eccentricity", ecc, 0.5 * ecc + 0.01),
                ("inclination", i0, 180.0 - 4e-8 if retro else 4e-8),
                ("true_longitude_periapsis", ang(el["lonper_motion"], 0.0), ang(el["lonper_motion"], 37.5)),
                ("true_anomaly", ang(el["nu"], 0.0), ang(el["nu"], 101.25))]))
        for rec in pick("IC", retro, n):
            el = rec["el"]
            S = O.Scaled(rec, 7000.0, I.mu)
            inc = math.degrees(math.atan2(O.qf(el["sini"]), O.qf(el["cosi"])))
            forms["coe_IC"].append((sc.COEStateConfig, [
                ("semi_major_axis", S.sma, S.sma * 1.07), ("eccentricity", 0.0, 4e-8),
                ("inclination", inc, inc + 20.0 if inc < 150.0 else inc - 20.0),
                ("right_ascension", ang(el["raan"], 0.0), ang(el["raan"], 37.5)),
                ("argument_latitude", ang(el["arglat"], 0.0), ang(el["arglat"], 101.25))]))
        for rec in pick("EC", retro, n):
            el = rec["el"]
            S = O.Scaled(rec, 7000.0, I.mu)
            forms["coe_EC"].append((sc.COEStateConfig, [
                ("semi_major_axis", S.sma, S.sma * 1.07), ("eccentricity", 0.0, 4e-8),
                ("inclination", 180.0 if retro else 0.0, 180.0 - 4e-8 if retro else 4e-8),
                ("true_longitude", ang(el["truelon_motion"], 0.0), ang(el["truelon_motion"], 101.25))]))
    return forms


def config_lifecycles(ctx: Ctx, sink: Sink, I: Impl, orbits: list):
    """Every behaviour of OrbitLatticeConfig.tla (Build, then Convert / Derive in every order, every way of
    deriving, every field of every accepted field combination) on ONE real object; each Convert must equal the
    toECI() of a freshly built object with the current fields (ConvertIgnoresHistory)."""
    import copy as _copy
    cfg = ("SPECIFICATION Spec\nCONSTANT Forms <- FormsAll\nCONSTANTS MaxDerive = %d Memoise = %s\n"
           "INVARIANT ConvertIgnoresHistory\nINVARIANT DerivedDiffers\n")
    res = tlc.require_ok(tlc.run_tlc("OrbitLatticeConfig", cfg % (2, "FALSE") + "INVARIANT EmitBehaviour\n", ctx.sub("config"),
                                     workers=min(4, ctx.cpus), timeout=900, coverage=True), "OrbitLatticeConfig")
    ctx.add_tlc(res, "OrbitLatticeConfig.tla exhaustive: life-cycles of one configuration object, ConvertIgnoresHistory")
    if not res.ok:
        raise tlc.MachineryError("OrbitLatticeConfig.tla fails at specification level:\n" + res.stdout[-2000:])
    for act in ("Build", "Convert", "Derive"):
        if res.coverage.get(f"OrbitLatticeConfig!{act}", (0, 0))[1] == 0:
            raise tlc.MachineryError(f"OrbitLatticeConfig.tla action {act} never taken")
    mut = tlc.run_tlc("OrbitLatticeConfig", cfg % (1, "TRUE"), ctx.sub("configmutant"), workers=1, timeout=600)
    ctx.add_tlc(mut, "spec mutant Memoise=TRUE (first conversion remembered, carried over by every Derive): ConvertIgnoresHistory must be refuted")
    if not any(nm == "ConvertIgnoresHistory" for nm, _ in mut.invariant_violations):
        raise tlc.MachineryError("spec mutant Memoise=TRUE was not refuted:\n" + mut.stdout[-1500:])
    ctx.extra.setdefault("spec_mutants_killed", []).append("Memoise=TRUE")
    behaviours = sorted(res.tagged("CONFIG"), key=lambda b: (b["form"], str(b["ops"])))
    if not behaviours:
        raise tlc.MachineryError("OrbitLatticeConfig.tla emitted no behaviours")
    forms = _config_forms(I, orbits, ctx.quick)
    n = 0
    for bi, beh in enumerate(behaviours):
        concrete = forms[beh["form"]]
        if not concrete:
            raise tlc.MachineryError(f"no lattice orbit for configuration form {beh['form']}")
        # quick: one base orbit per behaviour (rotating through the available ones); thorough: all
        for cls, fields in (concrete if not ctx.quick else [concrete[bi % len(concrete)]]):
            n += 1
            names = [f[0] for f in fields]
            cur = {f[0]: f[1] for f in fields}
            bits = [0] * len(fields)
            ctx.case(("config", beh["form"], str(beh["ops"]), str(fields[0][1])), nontrivial=True,
                     sample={"form": beh["form"], "ops": beh["ops"], "fields": names} if n == 77 else None)
            rp = {"form": beh["form"], "class": cls.__name__, "ops": beh["ops"], "base_fields": {k: v for k, v in cur.items()}}
            try:
                obj = cls(**cur)
                k_conv = 0
                for op in beh["ops"]:
                    if op[0] == "convert":
                        got = np.asarray(obj.toECI(EPOCH), dtype=float)
                        want_bits = beh["expected"][k_conv]
                        k_conv += 1
                        if want_bits != bits:
                            raise tlc.MachineryError(f"driver / spec valuation mismatch {want_bits} vs {bits}")
                        fresh = np.asarray(cls(**cur).toECI(EPOCH), dtype=float)
                        if not (np.all(np.isfinite(got)) and _close(got, fresh, 1e-13)):
                            hows = [o[1] for o in beh["ops"] if o[0] == "derive"]
                            sink.fail(f"config-convert-depends-on-history-{beh['form']}",
                                      f"{cls.__name__}.toECI() after {beh['ops']} differs from a freshly built {cls.__name__} with the same fields "
                                      f"by {_rel(got, fresh)[0]:.3g} |r| (derived via {hows})",
                                      dict(rp, current_fields=dict(cur), got=got.tolist(), fresh=fresh.tolist()))
                            break
                    else:
                        _, how, idx = op
                        name, base, alt = fields[idx - 1]
                        bits[idx - 1] ^= 1
                        val = alt if bits[idx - 1] else base
                        cur[name] = val
                        if how == "model_copy":
                            obj = obj.model_copy(update={name: val})
                        elif how == "assign":
                            setattr(obj, name, val)
                        else:
                            obj = _copy.deepcopy(obj) if how == "deepcopy" else _copy.copy(obj)
                            setattr(obj, name, val)
            except tlc.MachineryError:
                raise
            except Exception as ex:  # noqa: BLE001
                sink.fail(f"config-lifecycle-exception-{beh['form']}-{type(ex).__name__}", f"{cls.__name__} life-cycle {beh['ops']} raised {ex!r}", rp)
    ctx.traces_validated += n
    ctx.extra["config_lifecycle_behaviours"] = n
    ctx.extra["config_lifecycle_behaviours_from_spec"] = len(behaviours)


# ------------------------------------ minimal and over-specified classical descriptions of one orbit
_COE_FIELD = {"raan": "right_ascension", "argp": "argument_periapsis", "ta": "true_anomaly",
              "tlp": "true_longitude_periapsis", "arglat": "argument_latitude", "tl": "true_longitude"}


def config_descriptions(ctx: Ctx, sink: Sink, I: Impl, orbits: list):
    """Every subset of the six angular COE fields (OrbitLatticeDescribe.tla: documented element set, whether
    it describes the orbit's class) filled with values CONSISTENT for a lattice orbit: an accepted
    description whose documented form describes the orbit must convert to the orbit's state, however many
    redundant angles it carries; a subset containing no element set must be rejected."""
    cfg = 'SPECIFICATION Spec\nCONSTANT Pick = "%s"\nINVARIANT DocumentedFormChosen\nINVARIANT FullSetNeverLosesAngles\nINVARIANT SupersetsAccepted\n'
    res = tlc.require_ok(tlc.run_tlc("OrbitLatticeDescribe", cfg % "first" + "INVARIANT EmitDescription\n", ctx.sub("describe"),
                                     workers=1, timeout=600, coverage=True), "OrbitLatticeDescribe")
    ctx.add_tlc(res, "OrbitLatticeDescribe.tla exhaustive: 4 orbit classes x 64 field subsets, documented element set of each")
    if not res.ok:
        raise tlc.MachineryError("OrbitLatticeDescribe.tla fails at specification level:\n" + res.stdout[-2000:])
    for act in ("PoseClass", "PoseFields"):
        if res.coverage.get(f"OrbitLatticeDescribe!{act}", (0, 0))[1] == 0:
            raise tlc.MachineryError(f"OrbitLatticeDescribe.tla action {act} never taken")
    mut = tlc.run_tlc("OrbitLatticeDescribe", cfg % "last", ctx.sub("describemutant"), workers=1, timeout=600)
    ctx.add_tlc(mut, 'spec mutant Pick="last" (the last matching element set decides): DocumentedFormChosen must be refuted')
    if not any(nm in ("DocumentedFormChosen", "FullSetNeverLosesAngles") for nm, _ in mut.invariant_violations):
        raise tlc.MachineryError("spec mutant Pick=last was not refuted:\n" + mut.stdout[-1500:])
    ctx.extra.setdefault("spec_mutants_killed", []).append("Pick=last")
    recs = sorted(res.tagged("DESCRIBE"), key=lambda r: (r["class"], sorted(r["present"])))
    if len(recs) != 256:
        raise tlc.MachineryError(f"OrbitLatticeDescribe.tla emitted {len(recs)} descriptions, expected 256")
    per_class = 4 if ctx.quick else 16
    n = 0
    for cls_name in ("IE", "EE", "IC", "EC"):
        pool = [o for o in orbits if o["el"]["case"] == cls_name]
        pool = pool[:: max(1, len(pool) // per_class)][:per_class]
        if not pool:
            raise tlc.MachineryError(f"no lattice orbit of class {cls_name}")
        for rec in pool:
            el = rec["el"]
            ecc = O.qf(rec["e"])
            S = O.Scaled(rec, O.sizes_for(ecc, True)[1], I.mu)
            x = S.state(rec["r"], rec["v"])
            inc = math.degrees(math.atan2(O.qf(el["sini"]), O.qf(el["cosi"])))
            sg = -1 if (el["retro"] and cls_name in ("EE", "EC")) else 1
            if cls_name == "IE":
                W, w, nu = el["raan"], el["argp"], el["nu"]
            elif cls_name == "EE":
                W, nu = 1, el["nu"]
                w = (el["lonper_motion"] - sg * W) % 4
            elif cls_name == "IC":
                W, w = el["raan"], 1
                nu = (el["arglat"] - w) % 4
            else:
                W, w = 1, 2
                nu = (el["truelon_motion"] - w - sg * W) % 4
            val = {"raan": W, "argp": w, "ta": nu, "arglat": w + nu, "tlp": w + sg * W, "tl": nu + w + sg * W}
            for d in (r for r in recs if r["class"] == cls_name):
                kw = {"semi_major_axis": S.sma, "eccentricity": ecc, "inclination": inc}
                kw.update({_COE_FIELD[f]: 90.0 * (val[f] % 4) for f in d["present"]})
                n += 1
                ctx.case(("describe", cls_name, tuple(sorted(d["present"])), rec["fam"], str(rec["rot"]), rec["q"]), nontrivial=True,
                         sample={"class": cls_name, "present": sorted(d["present"]), "form": d["form"]} if n == 40 else None)
                rp = {"family": rec["fam"], "rot": rec["rot"], "q": rec["q"], "class": cls_name, "config": kw,
                      "documented_form": d["form"], "state": x.tolist()}
                try:
                    obj = I.sc.COEStateConfig(**kw)
                except Exception as ex:  # noqa: BLE001
                    if d["form"] != "rejected":
                        sink.fail(f"config-description-rejected-{d['form']}", f"COEStateConfig rejects fields {sorted(d['present'])} "
                                  f"although they contain the {d['form']} element set: {ex!r}"[:400], rp)
                    continue
                if d["form"] == "rejected":
                    sink.fail("config-description-accepted-without-element-set", f"COEStateConfig accepts angular fields {sorted(d['present'])} which contain no documented element set", rp)
                    continue
                if not d["describes"]:
                    continue                   # e.g. only the true longitude of an inclined orbit: a different orbit by documentation
                try:
                    got = np.asarray(obj.toECI(EPOCH), dtype=float)
                except Exception as ex:  # noqa: BLE001
                    sink.fail(f"config-description-exception-{type(ex).__name__}", f"COEStateConfig({sorted(d['present'])}).toECI() raised {ex!r}", rp)
                    continue
                if (obj.eccentric, obj.inclined) != (d["form"] in ("IE", "EE"), d["form"] in ("IE", "IC")):
                    sink.fail(f"config-description-wrong-element-set-{d['form']}", f"COEStateConfig with fields {sorted(d['present'])} is taken as "
                              f"eccentric={obj.eccentric} inclined={obj.inclined}; the documented (most specific) element set is {d['form']}", rp)
                elif not _close(got, x, TOL_TIGHT):
                    extra = sorted(set(d["present"]) - set(d["reads"]))
                    sink.fail(f"config-description-wrong-state-{d['form']}" + ("-overspecified" if extra else ""),
                              f"COEStateConfig of a {cls_name} lattice orbit with fields {sorted(d['present'])} (element set {d['form']}, redundant {extra}) "
                              f"gives a state {_rel(got, x)[0]:.3g} |r| away from the orbit", dict(rp, got=got.tolist()))
    ctx.traces_validated += n
    ctx.extra["config_descriptions"] = n


# ------------------------------------------- in-range angles whose SUM spans several revolutions
SUM_ANGLES_DEG = (0.0, 30.0, 180.0, 200.0, 250.0, 300.0, 330.0, 340.0, 350.0, 359.999)


def angle_sum_multiples(ctx: Ctx, sink: Sink, I: Impl):
    """singularityCheck / ClassicalElements / COEStateConfig with node, perigee and anomaly angles that are each
    inside [0, 2 pi) but whose class-specific combination (OrbitLattice.tla, EquatorialSplit: direct
    lon = raan + argp (+ anomaly), retrograde lon = argp (+ anomaly) - raan; inclined circular argp + anomaly)
    reaches every multiple of a turn the class allows: just below 6 pi (direct circular equatorial), 4 pi
    (two terms), negative (retrograde).  Every documented-range angle must lie in [0, 2 pi), the composite must
    equal the combination modulo a turn, the constructor must keep the orbit (toECI = coe2eci of the raw
    angles) and fromECI(toECI()) must give the same elements."""
    CE, c = I.el.ClassicalElements, I.c
    classes = (("IE", 0.3, 1.0), ("EE", 0.3, 0.0), ("EE-retro", 0.3, math.pi), ("IC", 0.0, 1.0),
               ("EC", 0.0, 0.0), ("EC-retro", 0.0, math.pi))
    slots = {"IE": ("right_ascension", "argument_periapsis", "true_anomaly")}
    n = 0
    for name, ecc, inc in classes:
        sg = -1.0 if name.endswith("retro") else 1.0
        for a_d in SUM_ANGLES_DEG:
            for b_d in SUM_ANGLES_DEG:
                for c_d in SUM_ANGLES_DEG:
                    raan, argp, anom = math.radians(a_d), math.radians(b_d), math.radians(c_d)
                    n += 1
                    ctx.case(("anglesum", name, a_d, b_d, c_d), nontrivial=True)
                    rp = {"class": name, "ecc": ecc, "inc": inc, "raan_deg": a_d, "argp_deg": b_d, "anomaly_deg": c_d}
                    if name == "IE":
                        want = (raan, argp, anom)
                    elif name.startswith("EE"):
                        want = (0.0, argp + sg * raan, anom)
                    elif name == "IC":
                        want = (raan, 0.0, anom + argp)
                    else:
                        want = (0.0, 0.0, anom + argp + sg * raan)
                    try:
                        out = I.u.singularityCheck(ecc, inc, raan, argp, anom)
                        ce = CE(8000.0, ecc, inc, raan, argp, anom)
                        for fn, vals in (("singularityCheck", out), ("ClassicalElements", (ce.raan, ce.argp, ce.true_anomaly))):
                            for nm, got, exp in zip(("raan", "argp", "anomaly"), vals, want):
                                _range_check(sink, f"{fn}[{name}]", nm, got, rp)
                                if O.ang_diff(float(got), exp) > 1e-9:
                                    sink.fail(f"angle-sum-value-{fn}-{name}", f"{fn}: {nm} = {math.degrees(got):.6f} deg for (raan, argp, anomaly) = "
                                              f"({a_d}, {b_d}, {c_d}) deg on a {name} orbit; expected {math.degrees(exp) % 360.0:.6f} deg", rp)
                        _range_check(sink, f"ClassicalElements[{name}]", "mean_anomaly", ce.mean_anomaly, rp)
                        x_raw = c.coe2eci(8000.0, ecc, inc, raan, argp, anom)
                        x_obj = ce.toECI()
                        if not _close(x_obj, x_raw, 1e-11):
                            sink.fail(f"angle-sum-constructor-moves-orbit-{name}", f"ClassicalElements(raan, argp, anomaly = {a_d}, {b_d}, {c_d} deg).toECI() "
                                      f"differs from coe2eci of the same elements by {_rel(x_obj, x_raw)[0]:.3g} |r|", rp)
                        back = CE.fromECI(x_obj)
                        for nm in ("raan", "argp", "true_anomaly"):
                            _range_check(sink, f"ClassicalElements.fromECI[{name}]", nm, getattr(back, nm), rp)
                            if O.ang_diff(float(getattr(back, nm)), float(getattr(ce, nm))) > TOL_ANGLE:
                                sink.fail(f"angle-sum-fromECI-differs-{name}", f"ClassicalElements.fromECI(obj.toECI()).{nm} = {getattr(back, nm)!r} but obj.{nm} = "
                                          f"{getattr(ce, nm)!r} for (raan, argp, anomaly) = ({a_d}, {b_d}, {c_d}) deg", rp)
                        if n % 5 == 0:       # the same three fields through the configuration object (full classical set)
                            kw = {"semi_major_axis": 8000.0, "eccentricity": ecc, "inclination": math.degrees(inc),
                                  "right_ascension": a_d, "argument_periapsis": b_d, "true_anomaly": c_d}
                            if not _close(I.sc.COEStateConfig(**kw).toECI(EPOCH), x_raw, 1e-11):
                                sink.fail(f"angle-sum-config-moves-orbit-{name}", f"COEStateConfig({a_d}, {b_d}, {c_d} deg).toECI() differs from coe2eci of the same elements", rp)
                    except Exception as ex:  # noqa: BLE001
                        sink.fail(f"angle-sum-exception-{name}-{type(ex).__name__}", f"angles ({a_d}, {b_d}, {c_d}) deg raised {ex!r}", rp)
    ctx.traces_validated += n
    ctx.extra["angle_sum_triples"] = n


# --------------------------------------------------- seam arguments of every documented-range angle
def seam_arguments(ctx: Ctx, sink: Sink, I: Impl):
    """Angles a few ulps below zero / around a whole turn (and multiples) handed to everything that documents
    an output range [0, 2 pi): both element classes (every angle attribute, every singular case), the element
    conversions and the anomaly / longitude functions.  The result must lie in the range and equal the
    argument modulo a turn."""
    two_pi = O.TWOPI
    seams = []
    for base in (0.0, two_pi, -two_pi, 2 * two_pi, 0.5 * two_pi):
        v = base
        seams.append(v)
        for direction in (-math.inf, math.inf):
            w = base
            for _ in range(3):
                w = float(np.nextafter(w, direction))
                seams.append(w)
    seams += [-1e-17, -1e-16, -5e-324, 5e-324, 1e-17, two_pi - 1e-16, two_pi + 1e-15]
    CE, EE, c, a = I.el.ClassicalElements, I.el.EquinoctialElements, I.c, I.a
    n = 0

    def chk(fn, name, val, want, rp, tol=1e-9):
        _range_check(sink, fn, name, val, rp)
        if want is not None and O.ang_diff(float(val), want) > tol:
            sink.fail(f"seam-value-{fn}.{name}", f"{fn}: {name} = {float(val)!r} for an argument equal to {want!r} modulo a turn", rp)
    for v in seams:
        rp = {"argument": repr(v)}
        n += 1
        ctx.case(("seam", repr(v)), nontrivial=True)
        try:
            for ecc, inc, case in ((0.1, 1.0, "IE"), (0.1, 0.0, "EE"), (0.0, 1.0, "IC"), (0.0, 0.0, "EC"), (0.1, math.pi, "EE-retro"), (0.0, math.pi, "EC-retro")):
                for slot in range(3):
                    ang = [0.3, 0.4, 0.5]
                    ang[slot] = v
                    ce = CE(7000.0, ecc, inc, *ang)
                    for name in ("raan", "argp", "true_anomaly", "mean_anomaly"):
                        chk(f"ClassicalElements[{case}]", name, getattr(ce, name), None, rp)
                    out = I.u.singularityCheck(ecc, inc, *ang)
                    for name, val in zip(("raan", "argp", "anomaly"), out):
                        chk(f"singularityCheck[{case}]", name, val, None, rp)
                ce = CE(7000.0, ecc, inc, v, v, v)
                if case == "IE":
                    for name in ("raan", "argp", "true_anomaly"):
                        chk("ClassicalElements[IE]", name, getattr(ce, name), v, rp)
            for h, k in ((0.1, 0.1), (0.0, 0.0), (0.0, -0.3)):
                for retro in (False, True):
                    ee = EE(7000.0, h, k, 0.1, 0.1, v, retro=retro)
                    chk("EquinoctialElements", "mean_longitude", ee.mean_longitude, v, rp)
                    chk("EquinoctialElements", "eccentric_longitude", ee.eccentric_longitude, None, rp)
                    chk("eccLong2MeanLong", "result", a.eccLong2MeanLong(v, h, k), None, rp)
                    chk("meanLong2EccLong", "result", a.meanLong2EccLong(v, h, k), None, rp)
                    out = c.eqe2coe(7000.0, h, k, 0.1, 0.1, v, retro=retro)
                    for name, val in zip(("raan", "argp", "anomaly"), out[3:]):
                        chk("eqe2coe", name, val, None, rp)
            for ecc in (0.0, 5e-8, 0.1, 0.6):
                for fn in ("trueAnom2MeanAnom", "meanAnom2TrueAnom", "trueAnom2EccAnom", "eccAnom2TrueAnom", "eccAnom2MeanAnom", "meanAnom2EccAnom"):
                    chk(fn, "result", getattr(a, fn)(v, ecc), v, rp)       # 0 and whole turns are fixed points of all six
                for retro in (False, True):
                    chk("trueAnom2MeanLong", "result", a.trueAnom2MeanLong(v, ecc, 0.0, 0.0, retro=retro), v, rp)
                    chk("meanLong2TrueAnom", "result", a.meanLong2TrueAnom(v, ecc, 0.0, 0.0, retro=retro), v, rp)
                    chk("coe2eqe", "mean_longitude", c.coe2eqe(7000.0, max(ecc, 0.0), 1.0, v, 0.0, 0.0, retro=retro)[5], v if not retro else -v, rp)
                    chk("coe2eqe", "mean_longitude", c.coe2eqe(7000.0, max(ecc, 0.0), 1.0, 0.0, v, 0.0, retro=retro)[5], v, rp)
        except Exception as ex:  # noqa: BLE001
            sink.fail(f"seam-exception-{type(ex).__name__}", f"an angle argument of {v!r} raised {ex!r}", rp)
    ctx.traces_validated += n
    ctx.extra["seam_arguments"] = n


# ------------------------------------- the prograde equinoctial set of an equatorial retrograde state
def retro_guard(ctx: Ctx, sink: Sink, I: Impl, orbits: list):
    """Equinoctial elements with retro=False do not exist for an exactly equatorial retrograde orbit (and
    with retro=True for an exactly equatorial prograde one).  The documented behaviour is to raise
    (EquinoctialElements: "auto-checks for the EQE singularity"; getInclinationFromEQE: InclinationError
    "Equatorial retrograde orbit, but retro!=True"); handing back non-finite elements / states silently is
    a violation.  A finite answer must still be the orbit."""
    from resonaate.physics.orbits import InclinationError
    n = 0
    for rec in orbits:
        el = rec["el"]
        if el["case"] not in ("EE", "EC"):
            continue
        bad_flag = not el["retro"]              # retro=True on a prograde equatorial, retro=False on a retrograde one
        if bad_flag:                              # documented only for the retrograde singularity: pose that one
            continue
        ecc = O.qf(rec["e"])
        S = O.Scaled(rec, O.sizes_for(ecc, True)[1], I.mu)
        x = S.state(rec["r"], rec["v"])
        rp = {"family": rec["fam"], "rot": rec["rot"], "q": rec["q"], "state": x.tolist(), "retro_flag": False}
        n += 1
        ctx.case(("retro-guard", rec["fam"], str(rec["rot"]), rec["q"]), nontrivial=True)
        for fn, call in (("eci2eqe", lambda: I.c.eci2eqe(x, retro=False)),
                         ("EquinoctialElements.fromECI", lambda: I.el.EquinoctialElements.fromECI(x, retro=False).toECI()),
                         ("eqe2coe(eci2eqe)", lambda: I.c.eqe2coe(*I.c.eci2eqe(x, retro=False), retro=False))):
            try:
                out = np.asarray(call(), dtype=float)
            except InclinationError:
                continue                                            # the documented answer
            except Exception as ex:  # noqa: BLE001 - some other refusal: not silent, accepted
                ctx.extra.setdefault("retro_guard_other_exceptions", {}).setdefault(type(ex).__name__, 0)
                ctx.extra["retro_guard_other_exceptions"][type(ex).__name__] += 1
                continue
            if not np.all(np.isfinite(out)):
                sink.fail(f"retro-equatorial-prograde-eqe-silent-nan-{fn}",
                          f"{fn} with retro=False on an exactly equatorial retrograde state returns non-finite values "
                          f"{out.tolist()} instead of raising InclinationError", rp)
    ctx.traces_validated += n
    ctx.extra["retro_guard_states"] = n


# ------------------------------------------------------------- relations on non-lattice orbits
def _relations(sink: Sink, I: Impl, x, mu, cls, cases, tag: str, rp: dict, allow: float, retro_eq: bool, inc: float,
               decided: bool = True):
    """Round-trip relations for an arbitrary bound state x.  cls = (inclined, eccentric) by
    construction; allow = additional relative error inherent to the singular-case thresholds;
    retro_eq: the state is (numerically indistinguishable from) equatorial retrograde."""
    c = I.c
    case = ("E" if retro_eq else "I" if cls[0] else "E") + ("E" if cls[1] else "C")
    pre = "retro-equatorial-" if retro_eq else ""
    try:
        coe = c.eci2coe(x, mu=mu)
        for name, val in zip(("raan", "argp", "anomaly"), coe[3:]):
            _range_check(sink, "eci2coe", name, val, rp)
        if not (0.0 <= coe[2] <= math.pi) or not (0.0 <= coe[1] < 1.0):
            sink.fail(f"eci2coe-range-{tag}", f"eci2coe inclination / eccentricity out of range: {coe[2]}, {coe[1]}", rp)
        back = c.coe2eci(*coe, mu=mu)
        if not _close(back, x, TOL_ACOS, allow):
            ep, ev = _rel(back, x)
            sink.fail(f"{pre}coe-roundtrip-{tag}-{case}", f"coe2eci(eci2coe(x)) misses x by {ep:.3g} |r|, {ev:.3g} |v| (allowed {TOL_ACOS + allow:.3g})",
                      dict(rp, coe=[float(v) for v in coe]))
        ce = I.el.ClassicalElements.fromECI(x)
        if decided and (ce.is_inclined, ce.is_eccentric) != cls:
            sink.fail(f"class-flags-{tag}-{case}", f"orbit constructed as inclined={cls[0]} eccentric={cls[1]} is classified "
                      f"inclined={ce.is_inclined} eccentric={ce.is_eccentric}", rp)
        for name in ("raan", "argp", "true_anomaly", "mean_anomaly"):
            _range_check(sink, "ClassicalElements", name, getattr(ce, name), rp)
        if not _close(ce.toECI(), x, TOL_ACOS, allow):
            sink.fail(f"{pre}ClassicalElements-roundtrip-{tag}-{case}", "ClassicalElements.fromECI(x).toECI() is not x", rp)
        flags = []
        if retro_eq:
            flags = [True]
        else:
            if inc < math.pi - 1e-3:
                flags.append(False)
            if inc > 1e-3:
                flags.append(True)
        for flag in flags:
            eq = c.eci2eqe(x, mu=mu, retro=flag)
            _range_check(sink, "eci2eqe", "mean_longitude", eq[5], rp)
            if not _close(c.eqe2eci(*eq, mu=mu, retro=flag), x, TOL_EQE_RT):
                sink.fail(f"eqe-roundtrip-{tag}-{case}", f"eqe2eci(eci2eqe(x)) with retro={flag} is not x", rp)
            if flag == (inc > 0.5 * math.pi) or retro_eq:
                coe_q = c.eqe2coe(*eq, retro=flag)
                for name, val in zip(("raan", "argp", "anomaly"), coe_q[3:]):
                    _range_check(sink, "eqe2coe", name, val, rp)
                if not _close(c.coe2eci(*coe_q, mu=mu), x, 1e-7, allow):
                    sink.fail(f"{pre}eqe2coe-disagrees-{tag}-{case}", f"coe2eci(eqe2coe(eci2eqe(x))) with retro={flag} is not x", rp)
                if not _close(c.eqe2eci(*c.coe2eqe(*coe, retro=flag), mu=mu, retro=flag), x, TOL_ACOS, allow):
                    sink.fail(f"{pre}coe2eqe-disagrees-{tag}-{case}", f"eqe2eci(coe2eqe(eci2coe(x))) with retro={flag} is not x", rp)
                ee = I.el.EquinoctialElements.fromECI(x, retro=flag)
                if ee.is_retro != flag:
                    sink.fail("EquinoctialElements-fromECI-drops-retro", f"EquinoctialElements.fromECI(x, retro={flag}).is_retro is {ee.is_retro}", rp)
                elif not _close(ee.toECI(), x, TOL_EQE_RT):
                    sink.fail(f"EquinoctialElements-roundtrip-{tag}-{case}", "EquinoctialElements.fromECI(x).toECI() is not x", rp)
        # configuration level: describe the orbit by the implementation's own elements, in the
        # slots that the case table of the specification assigns to the class the object reports
        if np.linalg.norm(x[:3]) > I.radius + 1.0 and coe[0] > I.radius + 1.0:
            sc = I.sc
            x_eci = sc.ECIStateConfig(position=x[:3].tolist(), velocity=x[3:].tolist()).toECI(EPOCH)
            ccase = ("I" if ce.is_inclined else "E") + ("E" if ce.is_eccentric else "C")
            slot = cases[ccase]
            kw = {"semi_major_axis": float(coe[0]), "eccentricity": float(coe[1]), "inclination": min(180.0, math.degrees(coe[2])),
                  slot["anomaly"]: _deg(ce.true_anomaly)}
            if slot["raan"]:
                kw["right_ascension"] = _deg(ce.raan)
            if slot["argp"]:
                kw[slot["argp_slot"]] = _deg(ce.argp)
            x_coe = sc.COEStateConfig(**kw).toECI(EPOCH)
            if not _close(x_coe, x_eci, TOL_ACOS, allow):
                sink.fail(f"{pre}config-coe-vs-eci-{tag}-{case}", "COEStateConfig built from the state's own classical elements does not give the ECIStateConfig state", dict(rp, kw=kw))
            flag = retro_eq or (inc > 0.5 * math.pi and inc > 1e-3)
            eq = c.eci2eqe(x, retro=flag)
            x_eqe = sc.EQEStateConfig(semi_major_axis=float(eq[0]), h=float(eq[1]), k=float(eq[2]), p=float(eq[3]), q=float(eq[4]),
                                      mean_longitude=_deg(float(eq[5])), retrograde=flag).toECI(EPOCH)
            if not _close(x_eqe, x_eci, TOL_EQE_RT):
                sink.fail(f"config-eqe-vs-eci-{tag}-{case}", "EQEStateConfig built from the state's own equinoctial elements does not give the ECIStateConfig state", rp)
    except Exception as ex:  # noqa: BLE001
        sink.fail(f"{pre}exception-{tag}-{case}-{type(ex).__name__}", f"conversion raised {ex!r} on a valid bound orbit", rp)


def threshold_variants(ctx: Ctx, sink: Sink, I: Impl, cases: dict, rng: random.Random):
    el, il = I.ecc_limit, I.inc_limit
    e_vars = [0.0, 1e-9, 0.5 * el, 0.99 * el, el, 1.01 * el, 2 * el, 10 * el, 1e-4]
    i_small = [0.0, 0.5 * il, 0.99 * il, il, 1.01 * il, 2 * il, 10 * il, 1e-7, 1e-6]
    i_vars = i_small + [math.pi - v for v in i_small]
    reps = 3 if ctx.quick else 25
    n = 0
    for ev in e_vars:
        for iv in i_vars:
            for _ in range(reps):
                sma = rng.uniform(6600.0, 50000.0)
                raan, argp, nu = (rng.uniform(0, O.TWOPI) for _ in range(3))
                if rng.random() < 0.25:           # quarter-turn angles: the quadrant seams
                    raan, argp, nu = (O.quarter(rng.randrange(4)) for _ in range(3))
                x = O.kep2cart(sma, ev, iv, raan, argp, nu, I.mu)
                ip = min(iv, math.pi - iv)
                # class by construction; within 0.1 % of the eccentricity limit, and between the
                # inclination limit and the resolution of arccos near 0 / pi, the class is not decided
                decided = abs(ev - el) > 1e-3 * el and (ip < 0.999 * il or ip >= ARCCOS_RES)
                cls = (ip >= il, ev >= el)
                allow = 4.0 * ((ev if ev < el * 1.001 else 0.0) + (ip if ip < ARCCOS_RES else 0.0))
                rp = {"sma": sma, "ecc": ev, "inc": iv, "raan": raan, "argp": argp, "nu": nu, "state": x.tolist(),
                      "ecc_over_limit": ev / el, "inc_over_limit": ip / il}
                n += 1
                ctx.case(("thr", ev / el, iv, round(sma, 6), round(raan, 9), round(argp, 9), round(nu, 9)),
                         nontrivial=True, sample=rp if n == 5 else None)
                _relations(sink, I, x, I.mu, cls, cases, "threshold", rp, allow, retro_eq=(iv > 1.0 and ip < ARCCOS_RES), inc=iv,
                           decided=decided)
    ctx.extra["threshold_variants"] = n
    ctx.traces_validated += n


def seeded_generic(ctx: Ctx, sink: Sink, I: Impl, cases: dict, rng: random.Random):
    n_orb = 1500 if ctx.quick else 40000
    for k in range(n_orb):
        sma = rng.uniform(6600.0, 50000.0)
        ecc = rng.choice((rng.uniform(0.0, 0.9), rng.uniform(0.0, 0.9), 10 ** rng.uniform(-6, -1), 0.9 - 10 ** rng.uniform(-6, -2)))
        mode = rng.randrange(6)
        inc = (rng.uniform(0, math.pi), rng.uniform(0, math.pi), 10 ** rng.uniform(-6, -2), math.pi - 10 ** rng.uniform(-6, -2),
               0.5 * math.pi, math.acos(rng.uniform(-1, 1)))[mode]
        raan, argp, nu = (rng.uniform(0, O.TWOPI) for _ in range(3))
        x = O.kep2cart(sma, ecc, inc, raan, argp, nu, I.mu)
        rp = {"sma": sma, "ecc": ecc, "inc": inc, "raan": raan, "argp": argp, "nu": nu, "state": x.tolist()}
        ctx.case(("gen", round(sma, 6), round(ecc, 12), round(inc, 12), round(raan, 9), round(argp, 9), round(nu, 9)),
                 nontrivial=True, sample=rp if k == 0 else None)
        _relations(sink, I, x, I.mu, (True, True), cases, "generic", rp, 0.0, retro_eq=False, inc=inc)
    ctx.extra["seeded_generic_orbits"] = n_orb
    ctx.traces_validated += n_orb


def seeded_anomalies(ctx: Ctx, sink: Sink, I: Impl, rng: random.Random):
    a = I.a
    n_an = 4000 if ctx.quick else 100000
    worst = 0.0
    for k in range(n_an):
        ecc = rng.choice((rng.uniform(0, 0.9), 10 ** rng.uniform(-8, -1), 0.0, I.ecc_limit * rng.choice((0.5, 0.99, 1.01, 2.0))))
        nu = rng.uniform(-2 * O.TWOPI, 2 * O.TWOPI) if k % 3 else O.quarter(rng.randrange(8)) + rng.choice((0.0, 1e-12, -1e-12))
        rp = {"ecc": ecc, "nu": nu}
        tol = 1e-9 + 4.0 * (ecc if ecc < I.ecc_limit * 1.001 else 0.0)    # circular: nu = E = M by documented convention
        try:
            e_an = a.trueAnom2EccAnom(nu, ecc)
            m_an = a.eccAnom2MeanAnom(e_an, ecc)
            vals = {"trueAnom2EccAnom": e_an, "eccAnom2MeanAnom": m_an, "trueAnom2MeanAnom": a.trueAnom2MeanAnom(nu, ecc),
                    "eccAnom2TrueAnom": a.eccAnom2TrueAnom(e_an, ecc), "meanAnom2EccAnom": a.meanAnom2EccAnom(m_an, ecc),
                    "meanAnom2TrueAnom": a.meanAnom2TrueAnom(m_an, ecc)}
            for fn, val in vals.items():
                _range_check(sink, fn, "result", val, rp)
            res = O.ang_diff(float(e_an) - ecc * math.sin(float(e_an)), float(m_an))
            worst = max(worst, res)
            checks = {"kepler-equation-residual": res,
                      "ecc-true-inverse": O.ang_diff(float(vals["eccAnom2TrueAnom"]), nu),
                      "mean-ecc-inverse": O.ang_diff(float(vals["meanAnom2EccAnom"]), float(e_an)),
                      "mean-true-inverse": O.ang_diff(float(vals["meanAnom2TrueAnom"]), nu),
                      "true-mean-composition": O.ang_diff(float(vals["trueAnom2MeanAnom"]), float(m_an))}
            # a Newton solution M -> E is accurate to (1 - e cos E)^-1 times the residual tolerance
            for name, err in checks.items():
                if err > tol * (1.0 if name != "mean-true-inverse" else 1.0 / (1.0 - ecc)):
                    sink.fail(f"anomaly-{name}", f"{name}: error {err:.3g} for e = {ecc}, nu = {nu}", rp)
            # equinoctial form
            ang = rng.uniform(0, O.TWOPI)
            h, kk = ecc * math.sin(ang), ecc * math.cos(ang)
            f_long = rng.uniform(-O.TWOPI, 2 * O.TWOPI)
            lam = a.eccLong2MeanLong(f_long, h, kk)
            f_back = a.meanLong2EccLong(lam, h, kk)
            _range_check(sink, "eccLong2MeanLong", "result", lam, rp)
            _range_check(sink, "meanLong2EccLong", "result", f_back, rp)
            rp2 = dict(rp, h=h, k=kk, F=f_long)
            if O.ang_diff(float(f_back), f_long) > tol:
                sink.fail("anomaly-meanlong-ecclong-inverse", f"meanLong2EccLong(eccLong2MeanLong(F)) differs from F by {O.ang_diff(float(f_back), f_long):.3g}", rp2)
            if O.ang_diff(f_long + h * math.cos(f_long) - kk * math.sin(f_long), float(lam)) > tol:
                sink.fail("anomaly-equinoctial-kepler-residual", "lambda != F + h cos F - k sin F", rp2)
            raan, argp = rng.uniform(0, O.TWOPI), rng.uniform(0, O.TWOPI)
            for retro in (False, True):
                lam2 = a.trueAnom2MeanLong(nu, ecc, raan, argp, retro=retro)
                nu2 = a.meanLong2TrueAnom(lam2, ecc, raan, argp, retro=retro)
                _range_check(sink, "trueAnom2MeanLong", "result", lam2, rp)
                _range_check(sink, "meanLong2TrueAnom", "result", nu2, rp)
                if O.ang_diff(float(nu2), nu) > tol / (1.0 - ecc) + 1e-9:
                    sink.fail("anomaly-meanlong-trueanom-inverse", f"meanLong2TrueAnom(trueAnom2MeanLong(nu)) differs from nu by {O.ang_diff(float(nu2), nu):.3g}", dict(rp, raan=raan, argp=argp, retro=retro))
        except Exception as ex:  # noqa: BLE001
            sink.fail(f"anomaly-exception-{type(ex).__name__}", f"anomaly conversion raised {ex!r}", rp)
        ctx.case(("anom", round(ecc, 14), round(nu, 12)), nontrivial=True)
    ctx.extra["seeded_anomaly_pairs"] = n_an
    ctx.extra["worst_kepler_residual"] = worst
    ctx.traces_validated += n_an


def run(ctx: Ctx):
    from .. import sched
    sched.install()
    rng = random.Random(ctx.seed * 104729 + 12)
    ctx.rule = ("lattice: every state of OrbitLattice.tla (family x 24 cube + 64 tilted orientations x 4 anomalies) at "
                "2-4 sizes in 6700..50000 km and unscaled; the identity-orientation lattice states (exact anomaly 0/90/180/270 deg) composed in floating "
                "point with 7 inclinations x 16 nodes x 6 perigee arguments x 4-6 sizes (non-quarter-turn, e.g. 28.5/45/63.4 deg); non-trivial = every lattice state (each has its own singular case / "
                "quadrant pattern); threshold variants: 8 eccentricities x 16 inclinations around the limits of the code x "
                "random angles; seeded generic orbits a 6600-50000 km, e < 0.9, all inclinations incl. 1e-6 from 0 and pi; "
                "seeded anomaly pairs incl. circular-limit eccentricities; every behaviour of OrbitLatticeConfig.tla (6 accepted field combinations x "
                "Convert/Derive sequences with up to 2 derivations x 4 ways of deriving x every field) on real config objects; 42 seam arguments; "
                "distinct by the abstract input tuple")
    ctx.assumptions = [
        "lattice oracle exact (TLC rationals); floats enter only through math.pi, math.acos(e), one division per rational and the documented scaling",
        f"anything that passed through the arccos-based extraction of eci2coe is compared with relative tolerance {TOL_ACOS} "
        "(arccos resolves 0/180 deg only to sqrt(machine epsilon)); forward / arctan2-based paths with 1e-11..1e-9",
        "orbits the code classifies as circular / equatorial (0 < e < 1e-7, 0 < i < 1e-7 deg) may come back FROM THE CLASSICAL SET displaced by up to 4(e + i) relative - inherent to the "
        "documented thresholds (eci2coe zeroes the undefined argument of perigee but keeps e; measured on the clean tree: up to 2 a e = 4.8e-3 km at e = 5e-8, 9.8e-3 km at e = 0.99e-7, "
        "a = 50000 km; 2.9e-9 km at e = 1.01e-7; i: up to 3e-8 rad, the arccos resolution).  The equinoctial set has no such threshold: ECI -> EQE -> ECI, EquinoctialElements and "
        f"EQEStateConfig are held to {TOL_EQE_RT} relative for every eccentricity (1e-9, 5e-8, 0.99e-7, 1e-7, 1.01e-7, 2e-7, 1e-6 included; measured 7e-11 km)",
        "arccos-based angles lose up to 2.6e-8 rad next to 0 / 180 deg (measured 2.6e-8 relative = 2.2e-3 km at the apoapsis of a = 50000 km, e = 0.9 orbits): conditioning of the documented "
        "(Vallado) formulation, inside the 5e-7 band above",
        "within 0.1 % of the eccentricity threshold, and for inclinations between the threshold (1e-7 deg) and 3e-8 rad from 0 / pi "
        "(arccos of a cosine cannot resolve them), the class of a variant is not decided and only the round-trip relations are checked",
        "equatorial retrograde composite angle: eastward and along-motion conventions both admissible as VALUES; the round trip is demanded",
        "eci2eqe/eqe2eci are used with retro=True on equatorial retrograde orbits, with both flags on inclined ones (retro=False only if i < pi - 1e-3, retro=True only if i > 1e-3)",
        "an angle returned as exactly 2 pi is outside its documented half-open range [0, 2 pi) and is reported under its own signature",
        "configuration objects are only built for states above the Earth's surface (their validators reject others); every lattice orbit has its perigee above the surface",
        "configuration life-cycles: after any sequence of conversions and derivations (model_copy(update), copy / deepcopy + assignment, assignment) toECI() must equal "
        "the toECI() of a freshly built object with the same fields to 1e-13 relative; derivations change values inside one accepted field combination",
        "seam arguments: angles within 3 ulps of 0, +-2 pi, 4 pi, pi and -1e-17 / denormals handed to both element classes (all four singular cases and both senses), "
        "singularityCheck, eqe2coe, coe2eqe and all anomaly / longitude functions: results in [0, 2 pi) and equal to the argument modulo a turn (1e-9)",
        "angle sums: the expected composite angle is the class's combination (EquatorialSplit of the specification) of the posed in-range angles modulo a turn (1e-9); "
        "fromECI(toECI()) is compared element-wise on the circle (5e-7), not with the class's == (isclose would split 0 / 2 pi)",
        "the prograde equinoctial set of an exactly equatorial retrograde state does not exist: raising (InclinationError is what the docstrings announce) is accepted, "
        "non-finite values without an exception are a violation; near-singular states (1 + w_z tiny but not zero) are not posed",
    ]
    cfg = O.lattice_cfg("FamC12Quick" if ctx.quick else "FamAll", arcs=False)
    _res, orbits, _arcs, cases = O.run_lattice(ctx, cfg, "lattice", "OrbitLattice.tla exhaustive (theorems + expected elements), C12",
                                               coverage=not ctx.quick, arcs=False)
    ctx.extra["spec_mutants_killed"] = ["RetroConvention=ccw"] if O.spec_mutant_killed(ctx) else []
    impl = Impl()
    sink = Sink(ctx)
    replay_lattice(ctx, sink, impl, orbits, cases)
    replay_real_orientations(ctx, sink, impl, orbits, rng)
    threshold_variants(ctx, sink, impl, cases, rng)
    seeded_generic(ctx, sink, impl, cases, rng)
    seeded_anomalies(ctx, sink, impl, rng)
    seam_arguments(ctx, sink, impl)
    angle_sum_multiples(ctx, sink, impl)
    retro_guard(ctx, sink, impl, orbits)
    config_lifecycles(ctx, sink, impl, orbits)
    config_descriptions(ctx, sink, impl, orbits)
    ctx.extra["violation_counts"] = dict(sorted(sink.count.items()))
