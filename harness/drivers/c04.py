"""C04 - reference-frame conversions are exact inverses, rigid, and continuous in time.

Three specifications decide the property, each bound to the real code spec -> impl (and, for
the continuity clause, impl -> spec):

1. ``Lattice3.tla`` (exact oracle).  TLC enumerates integer vectors in (-K..K)^3 and
   quarter-turn angles, proves the algebraic identities as invariants, and prints the
   expected integer matrices/vectors.  The driver evaluates the REAL ``skewSymmetric``,
   ``rot1-3``, ``dotRot1-3``, numpy ``cross`` (as used by transforms/methods.py),
   ``ecef2sez/sez2ecef`` (site on the quarter-turn lattice), ``sez2razel/razel2sez``,
   ``eci2rsw/rsw2eci/ntw2eci`` (triads) and ``lla2ecef/ecef2lla`` (equator / poles) at every
   emitted lattice point and compares to 1e-12.
2. ``FrameGraph.tla`` (relation).  TLC enumerates every closed walk of length <= MaxLen in the
   frame graph; a closed walk denotes the identity on coordinates.  The driver executes
   each walk with the real conversion functions on a constellation of points and requires:
   end = start, pairwise distances unchanged at every Cartesian frame on the way, norms kept
   by rigid edges, ``ecef2lla`` results on the reference ellipsoid.
3. ``EarthClock.tla``.  Exact calendar (day-of-year oracle for ``dayOfYear``, every day of
   2014..2022) and the continuity relation: the records of measured 1 s (and 0.5 s)
   transitions of the Earth-fixed longitude of fixed inertial directions - every midnight of
   the table span, seeded minute / hour / second boundaries - are validated by TLC
   (ContinuityOK: advance = elapsed SI seconds, 2 at the two inserted leap seconds, plus the
   table's own day-to-day step of UT1-TAI).
   Python-side relation (no TLC): the Earth-fixed velocity is the time derivative of the
   Earth-fixed position.

Decided exactly: the lattice helpers and the calendar.  Decided as relations with stated
tolerances: closed walks, rigidity, ellipsoid definition, continuity.  Not decided: the
absolute orientation (IAU-76/FK5 series, sidereal-time epoch) against an external almanac.
"""
from __future__ import annotations

import itertools
import json
import math
import random
import re
from concurrent.futures import ThreadPoolExecutor
from datetime import date, datetime, timedelta
from types import SimpleNamespace

import numpy as np

from .. import tlc
from ..core import REPO, Ctx

LEVEL = "model_checking"

TOL_LATTICE = 1e-12          # real helper vs integer oracle (cos(pi/2) = 6e-17 in floats)
TOL_POS_ABS = 1e-6           # km   (1 mm)
TOL_POS_REL = 1e-12          # of the largest vector involved
TOL_VEL = 1e-9               # km/s
TOL_RIGID_REL = 1e-12        # norms / pairwise distances, relative to the largest vector involved
TOL_GEO_REL = 1e-9           # geodetic closed form (ecef2lla): max(1e-6 km, 1e-9 |r|); see AXIS_BAND
AXIS_BAND = (1e-6, 1e-5)     # undecided: distance from the polar axis between 1e-6 km and 1e-5 |r| (closed form ill-conditioned)
SING_COS = 1e-3              # |cos(elevation / declination)| below this: angles ill-conditioned -> undecided
OMEGA = 7.2921151467064e-5   # rad/s, nominal Earth rotation rate (IERS / Vallado), NOT read from the code
UNIT = 1e-8                  # s of rotation per integer unit in the continuity records
TOL_CONT_RAD = 2e-9          # rad
TOL_CONT_UNITS = 2742        # = floor(TOL_CONT_RAD / OMEGA / UNIT); the constant Tol of EarthClock.cfg
SMOOTH_MAX_UNITS = 500000    # 5 ms; the constant SmoothMax of EarthClock.cfg
TOL_DERIV = 1e-6             # km/s, central-difference velocity relation (truncation < 4e-8 at 10 Re)


class Viol:
    """Keeps a few concrete inputs per violation signature, counts the rest."""

    def __init__(self, ctx: Ctx, keep: int = 2):
        self.ctx, self.keep, self.counts = ctx, keep, {}

    def add(self, sig: str, what: str, replay: dict) -> None:
        n = self.counts.get(sig, 0)
        self.counts[sig] = n + 1
        if n < self.keep:
            self.ctx.violation(sig, what, replay)


def _close(a, b, tol=TOL_LATTICE) -> bool:
    a, b = np.asarray(a, dtype=float), np.asarray(b, dtype=float)
    return a.shape == b.shape and bool(np.all(np.isfinite(a))) and float(np.max(np.abs(a - b))) <= tol


def _unit(v):
    v = np.asarray(v, dtype=float)
    return v / math.sqrt(float(v @ v))


def _six(p, v=(0.0, 0.0, 0.0)):
    return np.concatenate([np.asarray(p, dtype=float), np.asarray(v, dtype=float)])


# =====================================================================================
# 1. Lattice3: exact oracle for the helpers
# =====================================================================================
REPS = ("float64", "int64", "float32", "list")
TOL_FLOAT32 = 1e-5      # relative; a float32 container carries 24 bits, angles handed as float32 go through float32 trigonometry


def as_rep(x, rep: str):
    """Integer coordinates in the container `rep`."""
    if rep == "list":
        return [int(v) for v in x]
    return np.array([int(v) for v in x], dtype={"float64": np.float64, "int64": np.int64, "float32": np.float32}[rep])


def scal(v, rep: str):
    """An integer scalar argument (angle, range, rate) in the flavour that goes with the container `rep`."""
    return float(v) if rep == "float64" else np.float32(v) if rep == "float32" else int(v)


class ListNotAccepted(Exception):
    """A Python list raised inside a function whose signature asks for an ndarray: not a finding, only counted."""


def _guarded(V: Viol, tag: str, st: dict, fn) -> None:
    """Evaluate one lattice state; an exception raised while evaluating the real helpers is a violation, not a crash."""
    try:
        fn(st)
    except ListNotAccepted:
        pass
    except Exception as ex:  # noqa: BLE001
        V.add(f"lattice-helper-raises:{tag}", f"a real helper raises {type(ex).__name__} on the {tag} lattice point {st}",
              {"part": "lattice", "tag": tag, "state": st, "error": repr(ex)})


def replay_lattice(ctx: Ctx, res, V: Viol) -> None:
    from resonaate.physics import maths as M
    from resonaate.physics.bodies import Earth
    from resonaate.physics.transforms import methods as T

    rot = {1: M.rot1, 2: M.rot2, 3: M.rot3}
    dot = {1: M.dotRot1, 2: M.dotRot2, 3: M.dotRot3}
    eye6 = [_six(e) for e in np.eye(3)]
    n = 0
    skew_seen = set()
    with np.errstate(all="ignore"):
        list_refused = {}

        def in_rep(rep, name, call):
            """Call a real helper with arguments in container `rep`; a list that the helper cannot digest is only counted."""
            try:
                return call()
            except Exception:
                if rep != "list":
                    raise
                list_refused[name] = list_refused.get(name, 0) + 1
                raise ListNotAccepted(name) from None

        def one_vec(st):
            nonlocal n
            n += 1
            exp_cross = np.array(st["cross"], float)
            ctx.case(("vec", tuple(st["w"]), tuple(st["v"])), nontrivial=bool(exp_cross.any()),
                     sample=st if n == 4321 else None)
            # every lattice point in the float64 container and in one of the others (the expected integers are the same)
            for rep in ("float64", REPS[1 + n % 3]) if n % 2 else ("float64",):
                try:
                    vec_in(st, rep, exp_cross)
                except ListNotAccepted:
                    pass

        def vec_in(st, rep, exp_cross):
            sfx = "" if rep == "float64" else ":" + rep
            w, v = as_rep(st["w"], rep), as_rep(st["v"], rep)
            key = (tuple(st["w"]), rep)
            if key not in skew_seen:
                skew_seen.add(key)
                got = in_rep(rep, "skewSymmetric", lambda: M.skewSymmetric(w))
                if not _close(got, st["skew"]):
                    V.add("skewSymmetric-matrix" + sfx, f"skewSymmetric({st['w']}) [{rep}] differs from the documented cross-product matrix",
                          {"part": "lattice", "w": st["w"], "rep": rep, "got": np.asarray(got).tolist(), "expected": st["skew"]})
            got = in_rep(rep, "skewSymmetric", lambda: np.asarray(M.skewSymmetric(w)) @ np.asarray(v))
            if not _close(got, exp_cross):
                V.add("skewSymmetric-times-v-not-cross" + sfx, f"skewSymmetric(w) @ v [{rep}] differs from w x v",
                      {"part": "lattice", "w": st["w"], "v": st["v"], "rep": rep, "got": np.asarray(got).tolist(), "expected": st["cross"]})
            if not _close(in_rep(rep, "cross", lambda: T.cross(w, v)), exp_cross):
                V.add("cross-helper" + sfx, f"cross(w, v) [{rep}] used by transforms differs from w x v",
                      {"part": "lattice", "w": st["w"], "v": st["v"], "rep": rep})
            if exp_cross.any():
                # orbit-fixed triads for reference position w and velocity v
                ref = as_rep(st["w"] + st["v"], rep)
                units = [as_rep(e, rep) for e in ((1, 0, 0, 0, 0, 0), (0, 1, 0, 0, 0, 0), (0, 0, 1, 0, 0, 0))]
                exp_rsw = np.column_stack([_unit(st["w"]), _unit(st["s"]), _unit(exp_cross)])
                exp_ntw = np.column_stack([_unit(st["n"]), _unit(st["v"]), _unit(exp_cross)])
                got_rsw = np.column_stack([np.asarray(in_rep(rep, "rsw2eci", lambda e=e: T.rsw2eci(ref, e)), float)[:3] for e in units])
                got_ntw = np.column_stack([np.asarray(in_rep(rep, "ntw2eci", lambda e=e: T.ntw2eci(ref, e)), float)[:3] for e in units])
                tolr = 1e-6 if rep == "float32" else TOL_LATTICE     # unit vectors of a float32 state are float32 numbers
                if not _close(got_rsw, exp_rsw, tolr):
                    V.add("rsw2eci-axes" + sfx, f"rsw2eci axes [{rep}] are not (r, (r x v) x r, r x v) normalised",
                          {"part": "lattice", "r": st["w"], "v": st["v"], "rep": rep, "got": got_rsw.tolist(), "expected": exp_rsw.tolist()})
                if not _close(got_ntw, exp_ntw, tolr):
                    V.add("ntw2eci-axes" + sfx, f"ntw2eci axes [{rep}] are not (v x (r x v), v, r x v) normalised",
                          {"part": "lattice", "r": st["w"], "v": st["v"], "rep": rep, "got": got_ntw.tolist(), "expected": exp_ntw.tolist()})
                delta = np.array((1, -2, 3, 2, 1, -1))
                chaser = as_rep(np.array(st["w"] + st["v"]) + delta, rep)
                got = np.asarray(in_rep(rep, "eci2rsw", lambda: T.eci2rsw(ref, chaser)), float)
                exp = np.concatenate([exp_rsw.T @ delta[:3], exp_rsw.T @ delta[3:]])
                if not _close(got, exp, tolr * 10):
                    V.add("eci2rsw-axes" + sfx, f"eci2rsw [{rep}] does not project the relative state on (R, S, W)",
                          {"part": "lattice", "r": st["w"], "v": st["v"], "rep": rep, "got": got.tolist(), "expected": exp.tolist()})

        for st in res.tagged("VEC"):
            _guarded(V, "VEC", st, one_vec)

        def one_rot(st):
            nonlocal n
            i, a, b = st["axis"], st["qa"] * math.pi / 2, st["qb"] * math.pi / 2
            n += 1
            ctx.case(("rot", i, st["qa"], st["qb"]), nontrivial=st["qa"] % 4 != 0, sample=st if st["qa"] == 3 and st["qb"] == 2 and i == 2 else None)
            ra, rb = rot[i](a), rot[i](b)
            bad = None
            if not _close(ra, st["ra"]):
                bad = ("value", ra, st["ra"])
            elif not _close(ra @ rb, st["rab"]) or not _close(rot[i](a + b), st["rab"]):
                bad = ("composition", ra @ rb, st["rab"])
            elif not _close(ra @ ra.T, np.eye(3)) or not _close(np.linalg.det(ra), 1.0):
                bad = ("orthogonality", ra @ ra.T, np.eye(3).tolist())
            if bad:
                V.add(f"rot{i}-{bad[0]}", f"rot{i} at quarter turns ({st['qa']}, {st['qb']}): {bad[0]} differs from the integer oracle",
                      {"part": "lattice", "axis": i, "qa": st["qa"], "qb": st["qb"], "got": np.asarray(bad[1]).tolist(), "expected": bad[2]})
        for st in res.tagged("ROT"):
            _guarded(V, "ROT", st, one_rot)

        def one_dot(st):
            nonlocal n
            i, a, w = st["axis"], st["q"] * math.pi / 2, np.array(st["w"], float)
            n += 1
            ctx.case(("dot", i, st["q"], tuple(st["w"])), nontrivial=bool(w.any()))
            for rep in ("float64", REPS[1 + n % 3]):
                try:
                    got = in_rep(rep, f"dotRot{i}", lambda: dot[i](a, as_rep(st["w"], rep)))
                except ListNotAccepted:
                    continue
                if not _close(got, st["m"]):
                    V.add(f"dotRot{i}-value" + ("" if rep == "float64" else ":" + rep),
                          f"dotRot{i}(q*90deg, w) [{rep}] differs from rot{i}.[w]x (documented derivative)",
                          {"part": "lattice", "axis": i, "q": st["q"], "w": st["w"], "rep": rep, "got": np.asarray(got).tolist(), "expected": st["m"]})
        for st in res.tagged("DOT"):
            _guarded(V, "DOT", st, one_dot)

        a_eq = Earth.radius
        b_pol = Earth.radius * math.sqrt(1.0 - Earth.eccentricity ** 2)
        def one_site(st):
            nonlocal n
            lat, lon = st["ql"] * math.pi / 2, st["qn"] * math.pi / 2
            n += 1
            ctx.case(("site", st["ql"], st["qn"]), sample=st if (st["ql"], st["qn"]) == (0, 1) else None)
            m = np.array(st["m"], float)
            got = np.column_stack([T.ecef2sez(e, lat, lon)[:3] for e in eye6])
            gotv = np.column_stack([T.ecef2sez(_six((0, 0, 0), e[:3]), lat, lon)[3:] for e in eye6])
            if not _close(got, m) or not _close(gotv, m):
                V.add("ecef2sez-axes", "ecef2sez does not send local up/east/north to Z/E/-S on the quarter-turn lattice",
                      {"part": "lattice", "ql": st["ql"], "qn": st["qn"], "got": got.tolist(), "expected": st["m"]})
            back = np.column_stack([T.sez2ecef(e, lat, lon)[:3] for e in eye6])
            if not _close(back, m.T):
                V.add("sez2ecef-axes", "sez2ecef is not the transpose of the expected ECEF->SEZ rotation",
                      {"part": "lattice", "ql": st["ql"], "qn": st["qn"], "got": back.tolist(), "expected": m.T.tolist()})
            # geodetic conversions on the axes of the ellipsoid: radius a on the equator, b at the poles
            up = np.array(st["up"], float)
            for h in (0.0, 0.5, 400.0, 35786.0):
                rad = (a_eq if st["ql"] == 0 else b_pol) + h
                x = T.lla2ecef(np.array([lat, lon, h]))
                if not _close(x[:3], rad * up, 1e-9):
                    V.add("lla2ecef-axis-point", "lla2ecef on the equator / at a pole is not (a or b + h) along the local vertical",
                          {"part": "lattice", "ql": st["ql"], "qn": st["qn"], "h": h, "got": x.tolist(), "expected": (rad * up).tolist()})
                lla = T.ecef2lla(_six(rad * up))
                dl = (lla[1] - lon + math.pi) % (2 * math.pi) - math.pi
                if not (abs(lla[0] - lat) <= 1e-9 and abs(lla[2] - h) <= 1e-6 and (st["ql"] != 0 or abs(dl) <= 1e-12)):
                    V.add("ecef2lla-axis-point", "ecef2lla of a point on an axis of the ellipsoid is not (lat, lon, h)",
                          {"part": "lattice", "ql": st["ql"], "qn": st["qn"], "h": h, "got": np.asarray(lla).tolist(), "expected": [lat, lon, h]})
        for st in res.tagged("SITE"):
            _guarded(V, "SITE", st, one_site)

        def one_sitevec(st):
            nonlocal n
            n += 1
            lat, lon = st["ql"] * math.pi / 2, st["qn"] * math.pi / 2
            ctx.case(("sitevec", st["ql"], st["qn"], tuple(st["v"])), nontrivial=any(st["v"]))
            state = list(st["v"]) + [-c for c in st["v"]]          # velocity = -position: the halves cannot be swapped unnoticed
            for rep in REPS:
                x = as_rep(state, rep)
                for name, f, exp in (("ecef2sez", T.ecef2sez, st["mv"]), ("sez2ecef", T.sez2ecef, st["mtv"])):
                    try:
                        got = np.asarray(in_rep(rep, name, lambda f=f: f(x, lat, lon)), float)
                    except ListNotAccepted:
                        continue
                    if not _close(got, list(exp) + [-c for c in exp]):
                        V.add(f"{name}-integer-state:{rep}",
                              f"{name} of the integer state {state} handed over as {rep} at lat {st['ql']}*90, lon {st['qn']}*90 deg is not the "
                              f"rotated state {list(exp)} (lengths change, the pair is no longer inverse)",
                              {"part": "lattice", "ql": st["ql"], "qn": st["qn"], "state": state, "rep": rep, "got": got.tolist(), "expected": list(exp)})

        for st in res.tagged("SITEVEC"):
            _guarded(V, "SITEVEC", st, one_sitevec)

        two_pi = 2.0 * math.pi

        def one_look(st):
            nonlocal n
            d = np.array(st["dir"], float)
            n += 1
            ctx.case(("look", st["azq"], st["elq"], st["hair"]))
            hair = st["hair"] * 1e-17 * np.array(st["perp"], float)      # far below every tolerance, but not zero
            for rng in (1.0, 1234.5):
                r, el, az = T.sez2razel(_six(rng * (d + hair)))[:3]
                ok = abs(r - rng) <= 1e-12 * rng and abs(el - st["elq"] * math.pi / 2) <= 1e-12
                if st["elq"] == 0:
                    ok = ok and abs((az - st["azq"] * math.pi / 2 + math.pi) % two_pi - math.pi) <= 1e-12
                if not ok:
                    V.add("sez2razel-convention", "sez2razel: azimuth is not measured from north through east / elevation not positive up",
                          {"part": "lattice", "azq": st["azq"], "elq": st["elq"], "hair": st["hair"], "got": [float(r), float(el), float(az)]})
                # right ascension of the same direction in an equatorial frame (no south flip)
                d_eq = np.array([-1.0, 1.0, 1.0]) * (d + hair)
                ra = T.cartesian2spherical(_six(rng * d_eq))[2]
                if st["elq"] == 0:
                    for name, val, x in (("sez2razel", az, rng * (d + hair)), ("cartesian2spherical", ra, rng * d_eq)):
                        if not (0.0 <= val < two_pi):
                            V.add(f"wrapAngle2Pi-range:{name}",
                                  f"{name}({x.tolist()}): the angle {float(val)!r} is outside [0, 2 pi) (a direction a hair "
                                  f"{'west' if st['hair'] < 0 else 'east'} of azimuth {st['azq']}*90 deg)",
                                  {"part": "lattice", "azq": st["azq"], "hair": st["hair"], "input": x.tolist(), "got": float(val)})
                        elif not abs((val - st["azq"] * math.pi / 2 + math.pi) % two_pi - math.pi) <= 1e-12:
                            V.add(f"{name}-angle-value", f"{name}({x.tolist()}) = {float(val)!r} is not azimuth / right ascension {st['azq']}*90 deg",
                                  {"part": "lattice", "azq": st["azq"], "hair": st["hair"], "input": x.tolist(), "got": float(val)})
                back = T.razel2sez(rng, st["elq"] * math.pi / 2, st["azq"] * math.pi / 2, 0.0, 0.0, 0.0)
                if not _close(back[:3], rng * d, 1e-12 * rng):
                    V.add("razel2sez-convention", "razel2sez does not put azimuth 0 to the north (-S) and 90 deg to the east",
                          {"part": "lattice", "azq": st["azq"], "elq": st["elq"], "got": back.tolist(), "expected": (rng * d).tolist()})

        for st in res.tagged("LOOK"):
            _guarded(V, "LOOK", st, one_look)

        def one_wrap(st):
            nonlocal n
            n += 1
            a0 = st["q"] * math.pi / 2
            ctx.case(("wrap", st["q"], st["hair"]))
            if st["hair"] == 0:
                angles = [a0]
            else:
                angles = [a0 + st["hair"] * 1e-17, float(np.nextafter(a0, st["hair"] * math.inf)), a0 + st["hair"] * 1e-13]
            for ang in angles:
                got = float(M.wrapAngle2Pi(ang))
                if not (0.0 <= got < two_pi):
                    V.add("wrapAngle2Pi-range:helper", f"wrapAngle2Pi({ang!r}) = {got!r} is outside the documented [0, 2 pi)",
                          {"part": "lattice", "q": st["q"], "hair": st["hair"], "input": ang, "got": got})
                elif not abs((got - st["r"] * math.pi / 2 + math.pi) % two_pi - math.pi) <= 1e-12 * max(1, abs(st["q"])):
                    V.add("wrapAngle2Pi-value", f"wrapAngle2Pi({ang!r}) = {got!r} is not {st['r']} quarter turns",
                          {"part": "lattice", "q": st["q"], "hair": st["hair"], "input": ang, "got": got})

        for st in res.tagged("WRAP"):
            _guarded(V, "WRAP", st, one_wrap)

    # the emission must be the complete lattice (guards against a truncated TLC output)
    nw = len({k[0] for k in skew_seen})
    nt = len({st["qa"] for st in res.tagged("ROT")})
    counts = {t: len(res.tagged(t)) for t in ("VEC", "ROT", "DOT", "SITE", "SITEVEC", "LOOK", "WRAP")}
    if n == 0 or counts != {"VEC": nw * nw, "ROT": 3 * nt * nt, "DOT": 3 * nt * nw, "SITE": 12, "SITEVEC": 12 * nw, "LOOK": 14,
                            "WRAP": 3 * nt}:
        raise tlc.MachineryError(f"Lattice3.tla emission incomplete: {counts} for {nw} vectors, {nt} turn counts")
    ctx.traces_validated += n
    ctx.extra["lattice_states_replayed"] = n
    ctx.extra["lattice_helpers_refusing_python_lists"] = list_refused


# =====================================================================================
# 2. FrameGraph: closed walks executed with the real functions
# =====================================================================================
class Geo:
    """The reference-ellipsoid definition (two lines) from the constants in physics/bodies/earth.py."""

    def __init__(self):
        from resonaate.physics.bodies import Earth
        self.a, self.e2 = Earth.radius, Earth.eccentricity ** 2

    def lla2xyz(self, lla):
        lat, lon, h = (float(x) for x in lla)
        n = self.a / math.sqrt(1.0 - self.e2 * math.sin(lat) ** 2)
        return np.array([(n + h) * math.cos(lat) * math.cos(lon), (n + h) * math.cos(lat) * math.sin(lon),
                         (n * (1.0 - self.e2) + h) * math.sin(lat)])

    def surface_radius(self, u):
        b2 = self.a ** 2 * (1.0 - self.e2)
        return 1.0 / math.sqrt((u[0] ** 2 + u[1] ** 2) / self.a ** 2 + u[2] ** 2 / b2)


def _sph2cart(t, flip):
    """Driver-side definition of (range, elevation, azimuth, rates) -> Cartesian; flip=-1 for SEZ (azimuth from north)."""
    r, el, az, rd, eld, azd = (float(x) for x in t)
    ce, se, ca, sa = math.cos(el), math.sin(el), math.cos(az), math.sin(az)
    p = np.array([flip * r * ce * ca, r * ce * sa, r * se])
    v = np.array([flip * (rd * ce * ca - r * se * ca * eld - r * ce * sa * azd),
                  rd * ce * sa - r * se * sa * eld + r * ce * ca * azd,
                  rd * se + r * ce * eld])
    return np.concatenate([p, v])


class Walker:
    def __init__(self, edges_msg):
        from resonaate.physics.time.stardate import datetimeToJulianDate
        from resonaate.physics.transforms import methods as T
        self.T = T
        self.geo = Geo()
        self.cart = set(edges_msg["cart"])
        self.edge = {e["fn"]: e for e in edges_msg["edges"]}
        self.uses = {k: set(v) for k, v in edges_msg["uses"].items()}
        z6 = np.zeros(6)

        def eci2ntw(x, c):
            mat = np.column_stack([T.ntw2eci(c.ref, _six(e))[:3] for e in np.eye(3)])
            d = x - c.ref
            return np.concatenate([mat.T @ d[:3], mat.T @ d[3:]])

        def radar(x, c):
            obs = SimpleNamespace(range_km=x[0], elevation_rad=x[1], azimuth_rad=x[2],
                                  julian_date=datetimeToJulianDate(c.date), sensor_eci=c.obs_eci)
            return _six(T.radarObs2eciPosition(obs))

        self.ex = {
            "eci2ecef": lambda x, c: T.eci2ecef(x, c.date),
            "ecef2eci": lambda x, c: T.ecef2eci(x, c.date),
            "ecef2lla": lambda x, c: T.ecef2lla(x),
            "lla2ecef": lambda x, c: T.lla2ecef(x),
            "eci2lla": lambda x, c: T.eci2lla(x, c.date),
            "lla2eci": lambda x, c: T.lla2eci(x, c.date),
            "ecef2sez": lambda x, c: T.ecef2sez(x - c.site_ecef, c.lat, c.lon),
            "sez2ecef": lambda x, c: T.sez2ecef(x, c.lat, c.lon) + c.site_ecef,
            "eci2sez": lambda x, c: T.eci2sez(x - c.obs_eci, c.lat, c.lon, c.date),
            "sez2eci": lambda x, c: T.sez2eci(x, c.lat, c.lon, c.date) + c.obs_eci,
            "sez2razel": lambda x, c: np.array(T.sez2razel(x), dtype=float),
            "razel2sez": lambda x, c: T.razel2sez(*x),
            "eci2razel": lambda x, c: np.array(T.eci2razel(x, c.obs_eci, c.date), dtype=float),
            "radarObs2eciPosition": radar,
            "razel2radec": lambda x, c: np.array(T.razel2radec(*x, c.obs_eci, c.date), dtype=float),
            "radec2razel": lambda x, c: np.array(T.radec2razel(*x, c.obs_eci, c.date), dtype=float),
            "eci2radec": lambda x, c: np.array(T.eci2radec(x, c.obs_eci, c.date), dtype=float),
            "radec2eci": lambda x, c: T.spherical2cartesian(*x) + c.obs_eci,
            "eci2rsw": lambda x, c: T.eci2rsw(c.ref, x),
            "rsw2eci": lambda x, c: T.rsw2eci(c.ref, x) + c.ref,
            "ntw2eci": lambda x, c: T.ntw2eci(c.ref, x) + c.ref,
            "eci2ntw": eci2ntw,
        }
        missing = set(self.edge) - set(self.ex)
        if missing:
            raise tlc.MachineryError(f"FrameGraph edges without an executor: {sorted(missing)}")
        # origin of the relative Cartesian frames, expressed in the absolute frame on the other side of the edge
        self.origin = {"ecef2sez": lambda c: c.site_ecef, "sez2ecef": lambda c: c.site_ecef,
                       "eci2sez": lambda c: c.obs_eci, "sez2eci": lambda c: c.obs_eci,
                       "eci2rsw": lambda c: c.ref, "rsw2eci": lambda c: c.ref,
                       "ntw2eci": lambda c: c.ref, "eci2ntw": lambda c: c.ref}
        self.abs_src = {"ecef2sez", "eci2sez", "eci2rsw", "eci2ntw"}
        self._z6 = z6
        self.max_geo_err = 0.0
        self.where = "walk"

    # ---- context -----------------------------------------------------------------
    def context(self, when: datetime, site_lla, ref):
        T = self.T
        site_ecef = T.lla2ecef(np.asarray(site_lla, dtype=float))
        return SimpleNamespace(date=when, lat=float(site_lla[0]), lon=float(site_lla[1]), site_lla=site_lla,
                               site_ecef=site_ecef, obs_eci=T.ecef2eci(site_ecef, when), ref=np.asarray(ref, dtype=float))

    # ---- canonical Cartesian form of coordinates in a frame -------------------------
    def canon(self, frame, x):
        if frame == "LLA":
            return _six(self.geo.lla2xyz(x))
        if frame == "RAZEL":
            return _sph2cart(x, -1.0)
        if frame == "RADEC":
            return _sph2cart(x, 1.0)
        return np.asarray(x, dtype=float)

    def degenerate(self, frame, x, c):
        """Driver-side diagnosis of an angle singularity hidden inside a conversion: the target at zero range, at the
        zenith / nadir of the site, or at the celestial pole as seen from the site (|cos| < SING_COS)."""
        lat, lon = c.lat, c.lon
        up = np.array([math.cos(lat) * math.cos(lon), math.cos(lat) * math.sin(lon), math.sin(lat)])
        south = np.array([math.sin(lat) * math.cos(lon), math.sin(lat) * math.sin(lon), -math.cos(lat)])
        east = np.array([-math.sin(lon), math.cos(lon), 0.0])
        rel_eci = rel_ecef = None
        if frame in ("RAZEL", "RADEC") and self.singular(frame, x):
            return True
        if frame == "ECI":
            rel_eci = x[:3] - c.obs_eci[:3]
        elif frame == "ECEF":
            rel_ecef = x[:3] - c.site_ecef[:3]
        elif frame in ("SEZ", "RAZEL"):
            q = x if frame == "SEZ" else _sph2cart(x, -1.0)
            rel_ecef = south * q[0] + east * q[1] + up * q[2]
        elif frame == "RADEC":
            rel_eci = _sph2cart(x, 1.0)[:3]
        else:
            return False
        try:                # the rotation between ECI and ECEF is taken from the real code (diagnosis only)
            if rel_ecef is None:
                rel_ecef = self.T.eci2ecef(_six(rel_eci), c.date)[:3]
            if rel_eci is None:
                rel_eci = self.T.ecef2eci(_six(rel_ecef), c.date)[:3]
        except Exception:  # noqa: BLE001
            return False
        r = float(np.linalg.norm(rel_ecef))
        if not r > 1e-9:
            return True
        horiz = float(np.linalg.norm(np.cross(rel_ecef / r, up)))
        polar = math.hypot(float(rel_eci[0]), float(rel_eci[1])) / float(np.linalg.norm(rel_eci))
        return horiz < SING_COS or polar < SING_COS

    @staticmethod
    def near_axis(x):
        """Inside the band around the polar axis where the geodetic closed form is ill-conditioned (not ON the axis)."""
        rd = math.hypot(float(x[0]), float(x[1]))
        return AXIS_BAND[0] < rd < AXIS_BAND[1] * float(np.linalg.norm(x[:3]))

    @staticmethod
    def singular(frame, x):
        return frame in ("RAZEL", "RADEC") and (abs(math.cos(float(x[1]))) < SING_COS or not float(x[0]) > 0.0)

    def scale(self, c, xs):
        s = max(1.0, float(np.linalg.norm(c.site_ecef[:3])), float(np.linalg.norm(c.ref[:3])))
        for x in xs:
            s = max(s, float(np.linalg.norm(x[:3])))
        return s

    # ---- one walk on a constellation -----------------------------------------------
    def run(self, w, c, pts):
        """Execute walk `w` on the points `pts` (coordinates in w['start']).

        Returns (status, failures): status 'ok' | 'singular'; failures = list of (kind, where, detail).
        """
        fails = []
        frame = w["start"]
        self.where = "walk"
        cur = [np.asarray(p, dtype=float) for p in pts]
        start_canon = [self.canon(frame, p) for p in cur]
        # size of the problem, from the INPUTS only (start point, site, reference): every absolute vector is at most this
        # long and every relative one at most twice; outputs of the real code never widen the tolerances
        scale = 2.0 * self.scale(c, [s for s in start_canon])
        if any(self.singular(frame, p) for p in cur):
            return "singular", fails
        vel_decided = True
        geo = frame == "LLA"           # an LLA node has been visited: geodetic closed-form tolerance from here on
        if geo and any(self.near_axis(self.geo.lla2xyz(p)) for p in cur):
            return "singular", fails
        last_cart = [p[:3] for p in cur] if frame in self.cart else None
        with np.errstate(all="ignore"):
            for k, fn in enumerate(w["walk"]):
                e = self.edge[fn]
                f = self.ex[fn]
                self.where = fn
                if fn == "eci2radec" and any(self.degenerate("ECI", p, c) for p in cur):
                    return "singular", fails          # passes through RAZEL internally
                try:
                    nxt = [np.asarray(f(p, c), dtype=float) for p in cur]
                except Exception as ex:  # noqa: BLE001 - raised by the real conversion
                    if any(self.degenerate(e["src"], p, c) for p in cur):
                        return "singular", fails
                    fails.append(("exception", fn, {"step": k, "error": repr(ex)}))
                    return "ok", fails
                if not all(np.all(np.isfinite(p)) for p in nxt):
                    if any(self.degenerate(e["src"], p, c) for p in cur) or any(self.singular(e["dst"], p) for p in nxt):
                        return "singular", fails
                    fails.append(("nonfinite", fn, {"step": k}))
                    return "ok", fails
                if any(self.singular(e["dst"], p) for p in nxt):
                    return "singular", fails
                big = max(float(np.linalg.norm(self.canon(e["dst"], p)[:3])) for p in nxt)
                if not big <= 100.0 * scale:
                    fails.append(("absurd", fn, {"step": k, "norm_km": big, "scale_km": scale}))
                    return "ok", fails
                if fn in ("ecef2lla", "eci2lla"):
                    xs_ecef = [p_in if fn == "ecef2lla" else self.T.eci2ecef(p_in, c.date) for p_in in cur]
                    if any(self.near_axis(x) for x in xs_ecef):
                        return "singular", fails
                    for x_ecef, p_out in zip(xs_ecef, nxt):
                        err = float(np.linalg.norm(self.geo.lla2xyz(p_out) - x_ecef[:3]))
                        self.max_geo_err = max(self.max_geo_err, err / max(1.0, float(np.linalg.norm(x_ecef[:3]))))
                        if err > max(TOL_POS_ABS, TOL_GEO_REL * float(np.linalg.norm(x_ecef[:3]))) or abs(p_out[0]) > math.pi / 2 + 1e-15:
                            fails.append(("ellipsoid", fn, {"step": k, "err_km": err, "lla": p_out.tolist()}))
                if e["dst"] == "LLA":
                    geo = True
                if e["rigid"]:
                    o = self.origin.get(fn)
                    o6 = o(c) if o else self._z6
                    for p_in, p_out in zip(cur, nxt):
                        a_in = p_in - o6 if fn in self.abs_src else p_in
                        a_out = p_out if (fn in self.abs_src or not o) else p_out - o6
                        dn = abs(float(np.linalg.norm(a_in[:3])) - float(np.linalg.norm(a_out[:3])))
                        if dn > TOL_RIGID_REL * scale:
                            fails.append(("norm", fn, {"step": k, "err_km": dn}))
                        if e["rvel"] and vel_decided:
                            dv = abs(float(np.linalg.norm(a_in[3:])) - float(np.linalg.norm(a_out[3:])))
                            if dv > TOL_VEL:
                                fails.append(("velnorm", fn, {"step": k, "err_kmps": dv}))
                if not e["vel"]:
                    vel_decided = False
                frame = e["dst"]
                cur = nxt
                if frame in self.cart:
                    pos = [p[:3] for p in cur]
                    if last_cart is not None:
                        for i, j in itertools.combinations(range(len(pos)), 2):
                            d0 = float(np.linalg.norm(last_cart[i] - last_cart[j]))
                            d1 = float(np.linalg.norm(pos[i] - pos[j]))
                            if abs(d0 - d1) > (TOL_GEO_REL if geo else TOL_RIGID_REL) * scale + 1e-9:
                                fails.append(("distance", fn, {"step": k, "err_km": abs(d0 - d1), "pair": [i, j]}))
                    last_cart = pos
        self.where = "walk"
        end_canon = [self.canon(frame, p) for p in cur]
        for s0, s1 in zip(start_canon, end_canon):
            ep = float(np.linalg.norm(s0[:3] - s1[:3]))
            if ep > max(TOL_POS_ABS, (TOL_GEO_REL if geo else TOL_POS_REL) * scale):
                fails.append(("pos", "walk", {"err_km": ep, "start": s0.tolist(), "end": s1.tolist()}))
            if w["vel"]:
                ev = float(np.linalg.norm(s0[3:] - s1[3:]))
                if ev > TOL_VEL:
                    fails.append(("vel", "walk", {"err_kmps": ev, "start": s0.tolist(), "end": s1.tolist()}))
        return "ok", fails


def boundary_dates(rng: random.Random, n_random: int) -> list[datetime]:
    """Instants across the span of the bundled EOP table, including every kind of boundary."""
    fixed = [
        datetime(2014, 1, 1, 0, 0, 0), datetime(2014, 12, 31, 23, 59, 59), datetime(2015, 1, 1, 0, 0, 0),
        datetime(2015, 6, 30, 23, 59, 59), datetime(2015, 7, 1, 0, 0, 0),           # leap second
        datetime(2016, 2, 28, 23, 59, 59), datetime(2016, 2, 29, 0, 0, 0), datetime(2016, 2, 29, 12, 34, 56),
        datetime(2016, 2, 29, 23, 59, 59, 999999), datetime(2016, 3, 1, 0, 0, 0),   # leap day
        datetime(2016, 12, 31, 23, 59, 59), datetime(2017, 1, 1, 0, 0, 0),          # leap second + year
        datetime(2018, 7, 31, 23, 59, 59), datetime(2018, 8, 1, 0, 0, 0),           # month
        datetime(2019, 3, 10, 7, 59, 59), datetime(2019, 3, 10, 8, 0, 0), datetime(2019, 3, 10, 8, 0, 59, 500000),
        datetime(2020, 2, 29, 23, 59, 59), datetime(2020, 3, 1, 0, 0, 0), datetime(2020, 12, 31, 23, 59, 59),
        datetime(2021, 1, 1, 0, 0, 0), datetime(2022, 10, 3, 23, 59, 59),
    ]
    span = (date(2022, 10, 3) - date(2014, 1, 1)).days
    for _ in range(n_random):
        d0 = datetime(2014, 1, 1) + timedelta(days=rng.randrange(span + 1))
        fixed.append(d0 + timedelta(seconds=rng.randrange(86400), microseconds=rng.choice((0, 0, 250000, 999999))))
    return fixed


def native_points(geo: Geo) -> dict:
    """Start coordinates, generated natively in each frame (lattice directions x radii, lattice angles)."""
    dirs = [np.array(d, float) for d in itertools.product((-1, 0, 1), repeat=3) if any(d)]      # 26: poles, equator, antimeridian
    vels = [(0.0, 7.5, 0.1), (-3.0, 2.0, 6.0), (0.5, -0.2, -7.0), (0.0, 0.0, 0.0), (4.0, 4.0, 0.0)]
    out = {}
    absol = []
    for k, d in enumerate(dirs):
        u = _unit(d)
        for j, mult in enumerate((1.0, 1.0627, 2.0, 6.61, 10.0)):                              # surface .. 10 radii
            absol.append(_six(u * geo.surface_radius(u) * mult, vels[(k + j) % len(vels)]))
    out["ECI"] = absol
    out["ECEF"] = absol
    lats = (-math.pi / 2, -1.0, -math.pi / 4, 0.0, 0.3, math.pi / 4, 1.3, math.pi / 2)
    lons = (-math.pi, -2.0, -math.pi / 2, 0.0, 1.0, math.pi / 2, 3.0, math.pi)
    alts = (0.0, 0.4, 400.0, 35786.0, 57000.0)
    out["LLA"] = [np.array(t) for t in itertools.product(lats, lons, alts)]
    rel = []
    for k, d in enumerate(dirs):
        for j, r in enumerate((0.5, 50.0, 2000.0, 40000.0)):
            rel.append(_six(_unit(d) * r, vels[(k + 2 * j) % len(vels)]))
    out["SEZ"] = rel
    out["RSW"] = rel
    out["NTW"] = rel
    rates = ((0.0, 0.0, 0.0), (0.5, 1e-3, -2e-3), (-3.0, -1e-4, 5e-4))
    ang = []
    for r, el, az in itertools.product((0.5, 800.0, 40000.0), (-1.2, -0.4, 0.0, 0.3, 1.2, 1.5),
                                       (0.0, 1.0, math.pi / 2, math.pi, 4.5, 2 * math.pi - 1e-3)):
        ang.append(np.array([r, el, az, *rates[len(ang) % 3]]))
    out["RAZEL"] = ang
    out["RADEC"] = ang
    return out


SITES = [(0.0, 0.0, 0.0), (0.61, 1.75, 0.3), (-1.05, math.pi, 2.5), (1.55, -math.pi / 2, 0.0),
         (0.35, -2.4, 0.1), (-0.2, 3.1, 0.0), (math.pi / 4, math.pi / 2, 4.0), (-1.4, 0.5, 1.0)]
REFS = [(7000.0, 0.0, 0.0, 0.0, 7.5, 0.3), (-20000.0, 15000.0, 8000.0, -2.0, -3.0, 1.0),
        (100.0, -6500.0, 2000.0, 7.0, 0.5, 1.0), (42164.0, 0.0, 0.0, 0.0, 3.0747, 0.0),
        (0.0, 0.0, 7100.0, 7.4, 0.0, 0.0), (5000.0, 5000.0, -1000.0, -1.0, 2.0, 7.0)]


def replay_walks(ctx: Ctx, res, V: Viol, rng: random.Random) -> None:
    msgs = res.tagged("EDGES")
    walks = res.tagged("WALK")
    if len(msgs) != 1 or not walks:
        raise tlc.MachineryError("FrameGraph.tla emitted no edge table / no walks")
    wk = Walker(msgs[0])
    unused = set(wk.edge) - {fn for w in walks for fn in w["walk"]}
    if unused:
        raise tlc.MachineryError(f"conversion edges on no closed walk: {sorted(unused)}")
    pts = native_points(wk.geo)
    dates = boundary_dates(rng, 10 if ctx.quick else 150)
    per_walk = 2 if ctx.quick else 24
    walks.sort(key=lambda w: (len(w["walk"]), w["start"], w["walk"]))
    ctxs = {}
    failing = {}        # (kind, where, walk tuple) -> first detail
    decided = {"pos": set(), "vel": set()}   # walks with at least one decided execution, per compared quantity
    n_run = n_sing = 0
    for wi, w in enumerate(walks):
        native = pts[w["start"]]
        for j in range(1 if (ctx.quick and len(w["walk"]) >= 6) else per_walk):
            di = (wi * 5 + j * 7 + rng.randrange(len(dates))) % len(dates)
            si = (wi + j * 3 + rng.randrange(len(SITES))) % len(SITES)
            ri = (wi * 2 + j + rng.randrange(len(REFS))) % len(REFS)
            pi = (wi * 11 + j * 29 + rng.randrange(len(native))) % len(native)
            key = (di, si, ri)
            when = dates[di]
            if "radarObs2eciPosition" in w["walk"]:
                # the observation epoch is a float Julian date converted back by julianDateToDatetime, which is documented
                # to assume whole seconds: such walks are run at the whole second
                when = when.replace(microsecond=0)
                key = (di, si, ri, "s")
            c = ctxs.get(key)
            if c is None:
                try:
                    c = ctxs[key] = wk.context(when, SITES[si], REFS[ri])
                except Exception as ex:  # noqa: BLE001 - raised by the real lla2ecef / ecef2eci inside the table span
                    V.add("site-conversion-raises", f"lla2ecef/ecef2eci raise {type(ex).__name__} for a site at {when.isoformat()}",
                          {"part": "walk", "date": when.isoformat(), "site_lla": list(SITES[si]), "error": repr(ex)})
                    continue
            idx = [pi, (pi + 1) % len(native), (pi + 37) % len(native)]
            group = [native[i] for i in idx]
            try:
                status, fails = wk.run(w, c, group)
            except Exception as ex:  # noqa: BLE001 - a value returned by the real code broke the evaluation of the case
                status, fails = "ok", [("exception", wk.where if wk.where != "walk" else w["walk"][-1], {"error": repr(ex)})]
            n_run += 1
            case_key = ("walk", tuple(w["walk"]), pi, when.isoformat(), si, ri)
            if status == "singular":
                n_sing += 1
                ctx.case(case_key, nontrivial=False)
                continue
            decided["pos"].add(tuple(w["walk"]))
            if w["vel"]:
                decided["vel"].add(tuple(w["walk"]))
            ctx.case(case_key, nontrivial=True,
                     sample={"walk": w["walk"], "start": w["start"], "date": when.isoformat(),
                             "site_lla": list(SITES[si]), "point": group[0].tolist()} if n_run % 977 == 1 else None)
            for kind, where, detail in fails:
                k2 = (kind, where, tuple(w["walk"]))
                if k2 not in failing:
                    failing[k2] = {"part": "walk", "walk": w["walk"], "start": w["start"], "date": when.isoformat(),
                                   "site_lla": list(SITES[si]), "ref": list(REFS[ri]),
                                   "points": [p.tolist() for p in group], "detail": detail}
    # report: edge-local failures by edge; closed-walk failures only for the shortest failing walks
    for (kind, where, walk), rp in sorted(failing.items(), key=lambda kv: (len(kv[0][2]), kv[0])):
        if where != "walk":
            what = {"ellipsoid": "result is not the geodetic (lat, lon, alt) of the input on the reference ellipsoid",
                    "norm": "rigid conversion changes the length of the position vector",
                    "velnorm": "rigid conversion changes the length of the velocity vector",
                    "distance": "pairwise distances of the constellation change",
                    "nonfinite": "conversion returns a non-finite value away from any angle singularity",
                    "absurd": "conversion returns a position more than 100 times larger than anything in the problem",
                    "exception": "conversion raises, or returns a value the case cannot be evaluated with, away from any angle singularity"}[kind]
            V.add(f"{kind}:{where}", f"{where}: {what}", rp)
    # closed-walk failures: name the most suspicious conversion first (spectrum-based: Ochiai score over the functions a
    # walk calls directly or indirectly, FrameGraph!Uses), then explain the remaining failing walks the same way
    def called(walk):
        out = set(walk)
        for fn in walk:
            out |= wk.uses.get(fn, set())
        return out

    for kind in ("pos", "vel"):
        rest = {k[2]: rp for k, rp in failing.items() if k[1] == "walk" and k[0] == kind}
        if not rest:
            continue
        ctx.extra[f"failing_closed_walks_{kind}"] = len(rest)
        passed = {}
        for wt in decided[kind] - set(rest):
            for fn in called(wt):
                passed[fn] = passed.get(fn, 0) + 1
        while rest:
            failed = {}
            for walk in rest:
                for fn in called(walk):
                    failed[fn] = failed.get(fn, 0) + 1
            suspect = min(failed, key=lambda fn: (-failed[fn] / math.sqrt(len(rest) * (failed[fn] + passed.get(fn, 0))),
                                                  len(wk.uses.get(fn, ())), fn))
            mine = sorted((w for w in rest if suspect in called(w)), key=lambda w: (len(w), w))
            det = rest[mine[0]]["detail"]
            V.add(f"walk-not-closed:{kind}:{suspect}",
                  f"{len(mine)} closed walk(s) through {suspect} do not return the start {'position' if kind == 'pos' else 'velocity'}; "
                  f"shortest: {' > '.join(mine[0])} (error {det.get('err_km', det.get('err_kmps')):.3e})", rest[mine[0]])
            for w in mine:
                del rest[w]
    ctx.traces_validated += n_run - n_sing
    ctx.extra["walks"] = len(walks)
    ctx.extra["walk_executions"] = n_run
    ctx.extra["walk_executions_singular_skipped"] = n_sing
    ctx.extra["walk_dates"] = len(dates)
    ctx.extra["max_relative_error_of_ecef2lla_seen"] = wk.max_geo_err


def replay_hands(ctx: Ctx, res, V: Viol) -> None:
    """FrameGraph!HandOver: integer coordinates handed to each real conversion in another container must give the result of
    the float64 hand-over (the container is not part of the state)."""
    from resonaate.physics.time.stardate import datetimeToJulianDate
    from resonaate.physics.transforms import methods as T
    hands = res.tagged("HAND")
    if not hands:
        raise tlc.MachineryError("FrameGraph.tla emitted no hand-over behaviours")
    # integer-valued context: sites (lat, lon in radians), observer and reference orbit states, dates
    sites = ((0, 0), (1, -2), (-1, 3))
    observers = ((-1300, -4700, 4100, 0, 0, 0), (6378, 0, 0, 0, 0, 0))
    refs = ((7000, 0, 0, 0, 7, 1), (-20000, 15000, 8000, -2, -3, 1))
    dates = (datetime(2018, 3, 4, 12, 0, 0), datetime(2016, 12, 31, 23, 59, 59))

    def call(fn, k, rep, site, obs, ref, when):
        x = as_rep(k, rep)
        sc = [scal(v, rep) for v in k]
        lat, lon = scal(site[0], rep), scal(site[1], rep)
        o, r = as_rep(obs, rep), as_rep(ref, rep)
        if fn in ("eci2ecef", "ecef2eci", "eci2lla", "lla2eci"):
            return getattr(T, fn)(x, when)
        if fn in ("ecef2lla", "lla2ecef", "sez2razel"):
            return getattr(T, fn)(x)
        if fn in ("ecef2sez", "sez2ecef"):
            return getattr(T, fn)(x, lat, lon)
        if fn in ("eci2sez", "sez2eci"):
            return getattr(T, fn)(x, lat, lon, when)
        if fn == "razel2sez":
            return T.razel2sez(*sc)
        if fn == "radec2eci":
            return T.spherical2cartesian(*sc)
        if fn in ("eci2razel", "eci2radec"):
            return getattr(T, fn)(x, o, when)
        if fn in ("razel2radec", "radec2razel"):
            return getattr(T, fn)(*sc, o, when)
        if fn == "radarObs2eciPosition":
            return T.radarObs2eciPosition(SimpleNamespace(range_km=sc[0], elevation_rad=sc[1], azimuth_rad=sc[2],
                                                          julian_date=datetimeToJulianDate(when), sensor_eci=o))
        if fn in ("eci2rsw", "rsw2eci", "ntw2eci"):
            return getattr(T, fn)(r, x)
        if fn == "eci2ntw":                     # derived edge: the real function behind it is ntw2eci
            return T.ntw2eci(r, x)
        raise tlc.MachineryError(f"no hand-over for {fn}")

    refused = {}
    n = 0
    with np.errstate(all="ignore"):
        for h in sorted(hands, key=lambda h: (h["fn"], h["rep"], h["coords"])):
            fn, rep, k = h["fn"], h["rep"], h["coords"]
            for j, (site, obs, ref, when) in enumerate(itertools.product(sites, observers[:1], refs, dates[:1])
                                                       if ctx.quick else itertools.product(sites, observers, refs, dates)):
                n += 1
                ctx.case(("hand", fn, rep, tuple(k), site, obs, ref, when.isoformat()), nontrivial=True,
                         sample={"hand": h, "site": site} if (fn, rep, j) == ("sez2ecef", "int64", 1) else None)
                rp = {"part": "hand", "fn": fn, "rep": rep, "coords": k, "site_lat_lon": site, "observer": obs, "ref": ref,
                      "date": when.isoformat()}
                try:
                    base = np.asarray(call(fn, k, "float64", site, obs, ref, when), dtype=float)
                except Exception as ex:  # noqa: BLE001
                    V.add(f"conversion-raises-on-integer-valued-state:{fn}", f"{fn} raises {type(ex).__name__} for the float64 state {k}",
                          dict(rp, error=repr(ex)))
                    continue
                try:
                    got = np.asarray(call(fn, k, rep, site, obs, ref, when), dtype=float)
                except Exception as ex:  # noqa: BLE001
                    if rep == "list":       # the signatures ask for ndarray: a refused list is counted, not reported
                        refused[fn] = type(ex).__name__
                        continue
                    V.add(f"conversion-rejects:{rep}:{fn}", f"{fn} raises {type(ex).__name__} when the state {k} is handed over as {rep}",
                          dict(rp, error=repr(ex)))
                    continue
                big = max(1.0, float(np.max(np.abs(base[np.isfinite(base)]))) if np.isfinite(base).any() else 1.0)
                tol = (TOL_FLOAT32 if rep == "float32" else 1e-12) * big
                same_nan = np.array_equal(np.isfinite(base), np.isfinite(got))
                if got.shape != base.shape or not same_nan or float(np.max(np.abs(np.nan_to_num(got - base)))) > tol:
                    V.add(f"representation-changes-result:{rep}:{fn}",
                          f"{fn} of the integer-valued state {k} handed over as {rep} differs from the float64 result "
                          f"(site {site}): {got.tolist()} vs {base.tolist()}", dict(rp, got=got.tolist(), expected=base.tolist()))
    ctx.traces_validated += n
    ctx.extra["handovers"] = n
    ctx.extra["conversions_refusing_python_lists"] = refused


# =====================================================================================
# 3. EarthClock: day-of-year oracle and continuity of the rotation
# =====================================================================================
def parse_eop(path) -> dict:
    """Independent parse of the bundled table: date -> (dUT1 in 1e-7 s as int, TAI-UTC in s)."""
    tab = {}
    for line in open(path):
        p = line.split()
        if len(p) >= 13:
            tab[date(int(p[0]), int(p[1]), int(p[2]))] = (round(float(p[6]) * 1e7), int(p[12]))
    return tab


def tt_kinds(ms_end: int, ttoff: int) -> list:
    """Boundaries of terrestrial time (UTC + (TAI-UTC) + 32.184 s) on which the instant ms_end (ms of day) falls."""
    t = ms_end + ttoff
    return [k for k, n in (("tt-day", 86400000), ("tt-hour", 3600000), ("tt-minute", 60000)) if t % n == 0]


def measure_transitions(ctx: Ctx, rng: random.Random, V: Viol | None = None):
    """Measure the advance of the Earth-fixed longitude of fixed inertial directions over 1 s / 0.5 s / 1 ms transitions."""
    from resonaate.physics.transforms.methods import eci2ecef
    tab = parse_eop(REPO / "src/resonaate/physics/data/eop/EOPdata.dat")
    first, last = min(tab), max(tab)
    if first != date(2014, 1, 1) or last < date(2022, 10, 3):
        raise tlc.MachineryError(f"unexpected span of the bundled EOP table: {first} .. {last}")
    dirs = [_six((7000.0, 0.0, 0.0)), _six((-25000.0, 33000.0, 0.0))]
    epoch = date(2014, 1, 1)
    cache = {}

    def lon(k, t):
        """Earth-fixed longitude, or the exception the real conversion raised at this legal instant."""
        key = (k, t)
        if key not in cache:
            if len(cache) > 64:
                cache.clear()
            try:
                y = eci2ecef(dirs[k], t)
                cache[key] = math.atan2(y[1], y[0])
            except Exception as ex:  # noqa: BLE001 - raised for an instant inside the span of the code's own table
                cache[key] = ex
        return cache[key]

    def record(t0: datetime, k: int, dur: int = 1000):
        t1 = t0 + timedelta(milliseconds=dur)
        a, b = lon(k, t0), lon(k, t1)
        d0, d1 = t0.date(), t1.date()
        ms = ((t0.hour * 60 + t0.minute) * 60 + t0.second) * 1000 + t0.microsecond // 1000
        dut = (tab[d1][0] - tab[d0][0]) * 10            # units of 1e-8 s
        dat = tab[d1][1] - tab[d0][1]
        rec = {"y": d0.year, "m": d0.month, "d": d0.day, "ms": ms, "dur": dur, "raised": 0, "adv": 0,
               "smooth": dut - dat * 100000000, "dat": dat, "dir": k, "t0": t0.isoformat(), "adv_s": None}
        for t, v in ((t0, a), (t1, b)):
            if isinstance(v, Exception):
                rec.update(raised=1, error=f"{type(v).__name__}: {v}", exc=type(v).__name__, at=t.isoformat())
                return rec
        dl = (b - a + math.pi) % (2 * math.pi) - math.pi
        if not math.isfinite(dl):
            rec.update(raised=1, error="non-finite Earth-fixed position", exc="NonFinite", at=t0.isoformat())
            return rec
        adv = round(-dl / OMEGA / UNIT)
        # TLC integers are 32 bit: clamp (10 s of rotation is as wrong as anything larger); the exact value stays in adv_s
        rec.update(adv=max(-1000000000, min(1000000000, adv)), adv_s=-dl / OMEGA)
        return rec

    ndays = (date(2022, 12, 31) - epoch).days + 1
    recs = [[] for _ in range(ndays)]
    day = epoch
    while day + timedelta(days=1) in tab and day <= date(2022, 10, 3):
        n = (day - epoch).days
        midnight = datetime(day.year, day.month, day.day)
        t0 = midnight + timedelta(seconds=86399)
        for k in range(len(dirs)):
            recs[n].append(record(t0, k))
        if n % 7 == 0:                                    # the boundary crossed in mid-second as well
            recs[n].append(record(t0 + timedelta(microseconds=500000), 0))
        # instants where terrestrial time (UTC + dAT + 32.184 s) is exactly on a day / hour / minute boundary, and
        # one millisecond either side: the transitions x-1ms -> x and x -> x+1ms
        ttoff = tab[day][1] * 1000 + 32184
        ends = [(86400000 - ttoff) % 86400000,                                       # TT midnight
                (rng.randrange(1440) * 60000 - ttoff) % 86400000]                    # a TT minute
        if n % 3 == 0 or not ctx.quick:
            ends.append((rng.randrange(24) * 3600000 - ttoff) % 86400000)            # a TT hour
        if not ctx.quick:
            ends += [(rng.randrange(1440) * 60000 - ttoff) % 86400000 for _ in range(3)]
        for ms_end in ends:
            if ms_end < 1:
                continue
            x = midnight + timedelta(milliseconds=ms_end)
            recs[n].append(record(x - timedelta(milliseconds=1), n % len(dirs), 1))
            recs[n].append(record(x, n % len(dirs), 1))
        day += timedelta(days=1)
    # every TT minute of one day per value of TAI-UTC (thorough: three days each)
    for dd in ((date(2014, 5, 1), date(2016, 5, 1), date(2018, 3, 14)) if ctx.quick else
               (date(2014, 5, 1), date(2015, 6, 30), date(2015, 1, 1), date(2016, 5, 1), date(2015, 7, 1), date(2016, 12, 31),
                date(2018, 3, 14), date(2017, 1, 1), date(2022, 10, 3))):
        ttoff = tab[dd][1] * 1000 + 32184
        for mnt in range(1440):
            ms_end = (mnt * 60000 - ttoff) % 86400000
            if ms_end >= 1:
                x = datetime(dd.year, dd.month, dd.day) + timedelta(milliseconds=ms_end)
                recs[(dd - epoch).days].append(record(x - timedelta(milliseconds=1), 0, 1))
    span = (date(2022, 10, 3) - epoch).days
    for i in range(1500 if ctx.quick else 40000):
        dd = epoch + timedelta(days=rng.randrange(span + 1))
        kind = i % 4
        if kind == 0:
            s = rng.randrange(24) * 3600 + 3599                       # hour boundary
        elif kind == 1:
            s = rng.randrange(1440) * 60 + 59                         # minute boundary
        else:
            s = rng.randrange(86399)
        if s >= 86399:
            s = 86398
        half = i % 5 == 2                                             # s.0 -> s.5: sub-second resolution of the rotation
        t0 = datetime(dd.year, dd.month, dd.day) + timedelta(seconds=s, microseconds=0 if half else rng.choice((0, 0, 500000)))
        recs[(dd - epoch).days].append(record(t0, i % len(dirs), 500 if half else 1000))
    return recs, tab


REC_FIELDS = ("y", "m", "d", "ms", "dur", "raised", "adv", "smooth", "dat")


def check_clock(ctx: Ctx, res, recs, V: Viol, rng: random.Random) -> None:
    from resonaate.physics.time.conversions import dayOfYear
    days = res.tagged("DAY")
    if len(days) != (date(2022, 12, 31) - date(2014, 1, 1)).days + 1:
        raise tlc.MachineryError(f"EarthClock.tla emitted {len(days)} days")
    tab = parse_eop(REPO / "src/resonaate/physics/data/eop/EOPdata.dat")
    kinds_count = {}
    by_n = {}

    def kinds_of(st, r):
        s = r["ms"] // 1000
        if r["dur"] == 1000:
            ks = list(st["kinds"]) if s == 86399 else (["minute"] if s % 60 == 59 else ["second"]) + (["hour"] if s % 3600 == 3599 else [])
        else:
            ks = ["half-second"] if r["dur"] == 500 else ["millisecond"]
        return ks + [k + ("-start" if at == r["ms"] else "") for at in (r["ms"], r["ms"] + r["dur"]) for k in tt_kinds(at, st["ttoff"])]

    for st in days:
        n = st["n"]
        by_n[n] = st
        dd = date(2014, 1, 1) + timedelta(days=n)
        if (dd.year, dd.month, dd.day) != (st["y"], st["m"], st["d"]) or dd.timetuple().tm_yday != st["doy"]:
            raise tlc.MachineryError(f"EarthClock calendar disagrees with datetime at day {n}: {st}")
        if st["nrec"] != len(recs[n]):
            raise tlc.MachineryError(f"EarthClock read {st['nrec']} records for day {n}, driver wrote {len(recs[n])}")
        if dd in tab and tab[dd][1] != st["dat"]:
            raise tlc.MachineryError(f"TAI-UTC of the bundled table ({tab[dd][1]}) differs from EarthClock.TaiMinusUtc ({st['dat']}) on {dd}")
        # exact oracle for the day-of-year helper (00:00:00), and its fraction at a random time
        ctx.case(("doy", st["y"], st["m"], st["d"]), nontrivial=True, sample={"doy_case": st} if n == 789 else None)
        h, mi, s = rng.randrange(24), rng.randrange(60), rng.randrange(60) + rng.choice((0.0, 0.5))
        try:
            got = float(dayOfYear(st["y"], st["m"], st["d"], 0, 0, 0))
            gotf = float(dayOfYear(st["y"], st["m"], st["d"], h, mi, s))
        except Exception as ex:  # noqa: BLE001
            V.add("dayOfYear-raises", f"dayOfYear raises {type(ex).__name__} for {st['y']}-{st['m']}-{st['d']}",
                  {"part": "clock", "date": [st["y"], st["m"], st["d"], h, mi, s], "error": repr(ex)})
            got = gotf = None
        if got is not None and got != st["doy"]:
            V.add("dayOfYear-wrong", f"dayOfYear({st['y']},{st['m']},{st['d']},0,0,0) = {got}, calendar says {st['doy']}",
                  {"part": "clock", "date": [st["y"], st["m"], st["d"]], "got": got, "expected": st["doy"]})
        if gotf is not None and not abs(gotf - st["doy"] - (h * 3600 + mi * 60 + s) / 86400.0) <= 1e-10:
            V.add("dayOfYear-fraction-wrong", "dayOfYear fraction is not seconds-of-day / 86400",
                  {"part": "clock", "date": [st["y"], st["m"], st["d"], h, mi, s], "got": gotf})
        for r in recs[n]:
            ks = kinds_of(st, r)
            for k in ks:
                kinds_count[k] = kinds_count.get(k, 0) + 1
            ctx.case(("transition", r["t0"], r["dur"], r["dir"]), nontrivial=True,
                     sample={"transition": r, "kinds": ks} if "leapsecond" in ks and r["dir"] == 0 and not r["t0"].endswith("500000") else None)
    nrec = sum(len(x) for x in recs)
    bad_days = set()
    for inv, _states in res.invariant_violations:
        if inv != "ContinuityOK":
            raise tlc.MachineryError(f"EarthClock.tla invariant {inv} violated at spec level")
    # every rejected day: the last state of each counterexample ("... violated by the initial state" has no State header)
    for seg in re.split(r"Error: Invariant ContinuityOK is violated", res.stdout)[1:]:
        seg = re.split(r"^(?:Error: Invariant|\d+ states generated|Finished in|Progress\()", seg, flags=re.M)[0]
        m = re.findall(r"dayNo = (\d+)", seg)
        if not m:
            raise tlc.MachineryError("cannot read the rejected day from TLC's counterexample:\n" + seg[-600:])
        bad_days.add(int(m[-1]))
    if res.property_violations:
        raise tlc.MachineryError(f"EarthClock.tla property violated at spec level: {res.property_violations[0][0]}")
    order = ["leapsecond", "year", "leapday", "month", "day", "hour", "minute", "second", "half-second", "millisecond"]
    tt_order = ["tt-day", "tt-hour", "tt-minute", "tt-day-start", "tt-hour-start", "tt-minute-start"]
    worst = 0
    named = 0
    for n in range(len(recs)):
        st = by_n[n]
        for r in recs[n]:
            s = r["ms"] // 1000
            el = (st["elapsed"] if s == 86399 else 1) if r["dur"] == 1000 else 0
            dev = r["adv"] - (el * 100000000 + r["smooth"] if r["dur"] == 1000 else r["dur"] * 100000)
            if n not in bad_days:           # accepted by TLC
                if r["raised"]:
                    raise tlc.MachineryError(f"TLC accepted day {n} although a conversion raised at {r['t0']}")
                worst = max(worst, abs(dev))
                continue
            # TLC rejected this day: name the failing record (the verdict is TLC's, this only labels it)
            ks = kinds_of(st, r)
            if r["raised"]:
                where = next((k.replace("tt-", "tt-on-").replace("-start", "") + "-boundary" for k in tt_order if k in ks),
                             next(k for k in order if k in ks))
                named += 1
                V.add(f"frame-conversion-raises:{r['exc']}:{where}",
                      f"eci2ecef raises {r['error']} at the legal instant {r['at']} (UTC) [{where}]",
                      {"part": "clock", "record": r, "kinds": ks})
                continue
            if r["dur"] == 1000 and r["dat"] != el - 1:
                raise tlc.MachineryError(f"leap seconds of the bundled table differ from EarthClock.LeapSecondDays at {r['t0']}")
            if abs(dev) > TOL_CONT_UNITS or abs(r["smooth"]) > SMOOTH_MAX_UNITS or ((s < 86399 or r["dur"] < 1000) and r["smooth"] != 0):
                kind = next(k for k in order if k in ks)
                if any(k.startswith("tt-") for k in ks):
                    kind += ":" + next(k for k in tt_order if k in ks).replace("-start", "")
                named += 1
                V.add(f"rotation-discontinuous:{kind}",
                      f"Earth-fixed longitude advances by {r['adv_s']:.8f} s of rotation over the {r['dur']} ms transition at {r['t0']} "
                      f"({kind}); expected {el if r['dur'] == 1000 else r['dur'] / 1000} s + table step {r['smooth'] * UNIT:.7f} s within {TOL_CONT_RAD} rad",
                      {"part": "clock", "record": r, "kinds": ks, "deviation_rad": dev * UNIT * OMEGA})
    if bad_days and not named:
        raise tlc.MachineryError(f"TLC rejected days {sorted(bad_days)[:5]} but the driver cannot name a failing record")
    ctx.traces_validated += nrec
    ctx.extra["transitions_validated"] = nrec
    ctx.extra["transition_kinds"] = kinds_count
    ctx.extra["max_continuity_deviation_rad_accepted"] = worst * UNIT * OMEGA


def check_velocity_derivative(ctx: Ctx, V: Viol, rng: random.Random) -> None:
    """The Earth-fixed velocity is the time derivative of the Earth-fixed position (central difference, 1 s)."""
    from resonaate.physics.transforms.methods import eci2ecef
    geo = Geo()
    pts = native_points(geo)["ECI"]
    n = 60 if ctx.quick else 1500
    for i in range(n):
        x = pts[rng.randrange(len(pts))]
        dd = date(2014, 1, 1) + timedelta(days=rng.randrange((date(2022, 10, 3) - date(2014, 1, 1)).days + 1))
        t = datetime(dd.year, dd.month, dd.day) + timedelta(seconds=rng.randrange(2, 86397))
        dt = timedelta(seconds=1)
        xm, xp = _six(x[:3] - x[3:], x[3:]), _six(x[:3] + x[3:], x[3:])
        ctx.case(("deriv", i, t.isoformat()), nontrivial=True)
        try:
            num = (eci2ecef(xp, t + dt)[:3] - eci2ecef(xm, t - dt)[:3]) / 2.0
            got = eci2ecef(x, t)[3:]
        except Exception as ex:  # noqa: BLE001
            V.add("eci2ecef-raises-inside-eop-span", f"eci2ecef raises {type(ex).__name__} at {t.isoformat()}",
                  {"part": "deriv", "date": t.isoformat(), "error": repr(ex)})
            continue
        err = float(np.linalg.norm(num - got))
        if not err <= TOL_DERIV:
            V.add("ecef-velocity-not-derivative", f"eci2ecef velocity differs from d/dt of the Earth-fixed position by {err:.3e} km/s",
                  {"part": "deriv", "x_eci": x.tolist(), "date": t.isoformat(), "got": got.tolist(), "numeric": num.tolist()})
    ctx.traces_validated += n
    ctx.extra["velocity_derivative_cases"] = n


# =====================================================================================
def _spec_level(res, name: str) -> None:
    for inv, states in res.invariant_violations:
        raise tlc.MachineryError(f"{name} theorem {inv} fails at spec level:\n" + "\n".join(states[-1:]))
    if res.property_violations:
        raise tlc.MachineryError(f"{name} property fails at spec level: {res.property_violations[0][0]}")


def run(ctx: Ctx):
    from .. import sched
    sched.install()
    rng = random.Random(ctx.seed * 104729 + 4)
    V = Viol(ctx)
    ctx.rule = ("lattice: every state of Lattice3.tla (w, v in (-K..K)^3; quarter turns; 12 sites; 6 look directions), non-trivial = "
                "non-zero cross product / non-identity turn; walks: every closed walk of length <= 6 of FrameGraph.tla x cases "
                "(start point native to the start frame from lattice directions x radii / lattice angles, 3 companions, date, site, "
                "reference orbit), non-trivial = not skipped as singular; clock: every day 2014..2022 (day-of-year), every midnight "
                "2014-01-01..2022-10-03 x 2 inertial directions plus seeded minute/hour/second/half-second transitions and 1 ms transitions "
                "around the instants where terrestrial time is on a minute/hour/day boundary; hand-overs: every conversion x container x "
                "integer coordinates of FrameGraph!IntArgs x integer sites / reference orbits")
    ctx.assumptions = [
        f"lattice helpers compared with TLC's integers at {TOL_LATTICE} (exact oracle)",
        f"closed walks: position error <= max({TOL_POS_ABS} km, {TOL_POS_REL} x largest vector), velocity error <= {TOL_VEL} km/s; "
        f"norms and pairwise distances within {TOL_RIGID_REL} x largest vector",
        f"geodetic closed form (ecef2lla, Vallado alg. 13): result put back through the ellipsoid definition within max({TOL_POS_ABS} km, "
        f"{TOL_GEO_REL} |r|), and the same band for walks once they pass through LLA (measured on the unchanged tree: 1.4e-10 |r| near "
        f"the equatorial plane at 10 radii); points whose distance from the polar axis lies between {AXIS_BAND[0]} km and "
        f"{AXIS_BAND[1]} |r| are undecided (measured: up to 2e-8 |r| there), points ON the axis are decided",
        f"angle frames with |cos(elevation or declination)| < {SING_COS} or zero range are undecided (skipped); polar / antimeridian "
        "geodetic points are compared in Cartesian space through the driver's own ellipsoid definition; exact zenith/pole conventions "
        "are checked on the quarter-turn lattice instead",
        "velocity is compared only on walks whose every edge carries it (LLA and radarObs2eciPosition drop it)",
        "RSW / SEZ states are relative to the reference orbit / site: the driver adds and subtracts that origin as the simulator does",
        "eci2ntw and radec2eci do not exist in methods.py; they are realised from ntw2eci (transpose of the unit-vector images) and "
        "spherical2cartesian + observer_eci",
        f"continuity: UT1 advance = longitude change / {OMEGA} rad/s; expected = elapsed SI seconds (2 at the leap seconds of "
        f"2015-06-30 and 2016-12-31) + the day-to-day step of (UT1-TAI) of the bundled table (one row per day is the documented EOP "
        f"design; |step| <= 5 ms) within {TOL_CONT_RAD} rad; the table is parsed independently by the driver",
        "authoritative calendar: datetime + timedelta (cross-checked against EarthClock.tla, mismatch = machinery error)",
        f"velocity relation: central difference over +-1 s within {TOL_DERIV} km/s (truncation bound 4e-8 km/s at 10 radii)",
        "containers: integer-valued states are handed to every conversion as float64 / int64 / float32 arrays and as Python lists "
        f"(scalars as int / numpy float32); int64 and list must reproduce the float64 result to 1e-12, float32 to {TOL_FLOAT32} relative "
        "(float32 arithmetic inside the conversion is accepted); a function that RAISES on a list is only counted (signatures ask for "
        "ndarray), a silently different result is a violation",
        "every instant of the table span is legal: a conversion that raises is a violation; instants are posed in particular where "
        "UTC + (TAI-UTC) + 32.184 s falls on a whole minute / hour / day, and one millisecond either side",
        "angles returned through maths.wrapAngle2Pi (azimuth, right ascension) must lie in its documented [0, 2 pi), also for "
        "directions a hair (1e-17 relative) either side of the lattice azimuths",
    ]
    tier = "quick" if ctx.quick else "thorough"
    pool = ThreadPoolExecutor(3)
    w3 = max(2, ctx.cpus // 2)
    f_lat = pool.submit(tlc.run_tlc, "Lattice3", f"Lattice3_{tier}.cfg", ctx.sub("lattice"), workers=w3, timeout=1500)
    f_fg = pool.submit(tlc.run_tlc, "FrameGraph", f"FrameGraph_{tier}.cfg", ctx.sub("frames"), workers=max(2, ctx.cpus // 4), timeout=1500)

    recs, _tab = measure_transitions(ctx, rng, V)
    d = ctx.sub("clock")
    (d / "records.json").write_text(json.dumps([[{k: r[k] for k in REC_FIELDS} for r in day] for day in recs]))
    f_clk = pool.submit(tlc.run_tlc, "EarthClock", "EarthClock.cfg", d, workers=1, cont=True, env={"RECORDS_FILE": "records.json"}, timeout=1500)

    res = tlc.require_ok(f_lat.result(), "Lattice3")
    ctx.add_tlc(res, "Lattice3.tla exhaustive: algebraic identities + expected integer matrices")
    _spec_level(res, "Lattice3.tla")
    replay_lattice(ctx, res, V)

    res = tlc.require_ok(f_fg.result(), "FrameGraph")
    ctx.add_tlc(res, "FrameGraph.tla exhaustive: all closed walks up to MaxLen")
    _spec_level(res, "FrameGraph.tla")
    replay_walks(ctx, res, V, rng)
    replay_hands(ctx, res, V)

    res = tlc.require_ok(f_clk.result(), "EarthClock")
    ctx.add_tlc(res, "EarthClock.tla: calendar 2014..2022 + validation of measured transitions (ContinuityOK)")
    check_clock(ctx, res, recs, V, rng)
    check_velocity_derivative(ctx, V, rng)
    pool.shutdown()
    ctx.extra["violation_counts"] = dict(V.counts)


def replay(ctx: Ctx, rp: dict):
    """Re-run the check with the seed and tier of the stored counterexample (deterministic, about a minute in quick)."""
    ctx.seed = int(rp.get("seed", ctx.seed))
    ctx.tier = rp.get("tier", ctx.tier)
    ctx.quick = ctx.tier == "quick"
    return run(ctx)
