"""Shared helpers of G03 (spec/Membership.tla): abstract configuration -> REAL scenario, projection of the real
Scenario onto the specification's snapshot, a recorder that wraps the public membership methods from outside,
and the worker-side replay routines (builds, transition tours, behaviours, event-driven scenarios).

Abstract ids: agent id i (1..4) <-> real id 61000 + i (monotone, so sorted lists agree); engine ids are used as is.
Nothing under /repo is edited; only public configuration keys and public attributes are used.
"""
from __future__ import annotations

import copy
import json
import signal
from datetime import timedelta

AID0 = 61000
START = "2021-03-30T16:00:00"
STEP = 60
NAMED = ("T", "E", "S", "D")
EMPTY_SNAP = {"T": [], "E": [], "S": [], "D": [], "eng": []}

_W = {}
_REC = [None]
_INSTALLED = [False]


def rid(i: int) -> int:
    return AID0 + int(i)


def aid(r: int) -> int:
    return int(r) - AID0


# ------------------------------------------------------------------------------------------------
# abstract configuration -> real configuration dict
def world():
    """Per-process templates taken from the repository's own test configuration."""
    if not _W:
        from harness import scenario_util as su
        base = su.base_config(start=START, step=STEP, n_steps=8, n_targets=4, n_sensors=4, truth_only=False,
                              decision="MyopicNaiveGreedyDecision", seed=7)
        eng = base["engines"][0]
        _W.update(base=base, eng=eng, T=eng["targets"], S=eng["sensors"], su=su)
    return _W


def target_spec(i: int, cls: str = "a") -> dict:
    w = world()
    t = copy.deepcopy(w["T"][(i - 1) % len(w["T"])])
    t["id"], t["name"] = rid(i), f"tgt{i}"
    if cls != "a":                      # another initial-state class: a different state for the same id
        t["state"]["position"][0] += 10.0 * (ord(cls) - ord("a"))
    return t


def sensor_spec(i: int) -> dict:
    w = world()
    s = copy.deepcopy(w["S"][(i - 1) % len(w["S"])])
    s["id"], s["name"] = rid(i), f"sen{i}"
    return s


def space_sensor_spec(i: int) -> dict:
    """A space-based optical sensor (SensorAdditionEvent stores an ECI state: ground facilities cannot be added by event)."""
    return {"name": f"geo{i}", "id": rid(i),
            "state": {"type": "eci", "position": [42499.60206485572 - 3.0 * i, 184.76309877864716, 4.838191959393135],
                      "velocity": [-0.013241150121066223, 3.0793657899539326, 0.08063602923669937]},
            "platform": {"type": "spacecraft"},
            "sensor": {"type": "optical", "covariance": [[9.869604401089358e-14, 0.0], [0.0, 9.869604401089358e-14]],
                       "slew_rate": 0.03490658503988659, "azimuth_range": [0.0, 6.283185132646661],
                       "elevation_range": [-1.5707961522619713, 1.5707961522619713], "efficiency": 0.99,
                       "aperture_diameter": 0.5, "field_of_view": {"fov_shape": "conic"},
                       "background_observations": False, "detectable_vismag": 25.0,
                       "minimum_range": 0.0, "maximum_range": 99000}}


def real_cfg(acfg: dict, n_steps: int = 8) -> dict:
    w = world()
    su = w["su"]
    cfg = copy.deepcopy(w["base"])
    t0 = su.parse_iso(START)
    cfg["time"]["stop_timestamp"] = su.iso(t0 + timedelta(seconds=STEP * n_steps))
    cfg["propagation"]["truth_simulation_only"] = bool(acfg.get("truthOnly", False))
    cfg["engines"] = []
    for e in acfg["engines"]:
        eng = {k: copy.deepcopy(v) for k, v in w["eng"].items() if k not in ("targets", "sensors")}
        eng["unique_id"] = int(e["id"])
        eng["targets"] = [target_spec(t["id"], t["cls"]) for t in e["tg"]]
        eng["sensors"] = [sensor_spec(s) for s in e["sn"]]
        cfg["engines"].append(eng)
    events = []
    for ev in acfg.get("events", []):
        when = su.iso(t0 + timedelta(seconds=(ev["at"] - 1) * STEP + STEP // 2))
        base = {"scope": "scenario_step", "scope_instance_id": 0, "start_time": when, "end_time": when,
                "tasking_engine_id": int(ev["eng"])}
        if ev["kind"] == "addT":
            events.append({**base, "event_type": "target_addition", "target_agent": target_spec(ev["id"])})
        elif ev["kind"] == "addS":
            events.append({**base, "event_type": "sensor_addition", "sensor_agent": space_sensor_spec(ev["id"])})
        else:
            events.append({**base, "event_type": "agent_removal", "agent_id": rid(ev["id"]),
                           "agent_type": "target" if ev["kind"] == "remT" else "sensor"})
    cfg["events"] = events
    return cfg


# ------------------------------------------------------------------------------------------------
# projection of the real Scenario (public attributes only) and normal forms
def project(app) -> dict:
    from resonaate.data.agent import AgentModel
    from sqlalchemy.orm import Query
    rows = app.database.getData(Query(AgentModel))
    eng = []
    for e, x in app.tasking_engines.items():
        eng.append({"id": int(e), "T": [aid(i) for i in x.target_list], "S": [aid(i) for i in x.sensor_list],
                    "dims": [int(x.reward_matrix.shape[0]), int(x.reward_matrix.shape[1])],
                    "shapes_agree": (x.reward_matrix.shape == x.decision_matrix.shape == x.visibility_matrix.shape),
                    "tix": sorted([aid(i), int(j)] for i, j in x.target_indices.items()),
                    "six": sorted([aid(i), int(j)] for i, j in x.sensor_indices.items())})
    return {"T": sorted(aid(i) for i in app.target_agents), "E": sorted(aid(i) for i in app.estimate_agents),
            "S": sorted(aid(i) for i in app.sensor_agents), "D": sorted(aid(r.unique_id) for r in rows), "eng": eng}


def norm(s: dict) -> dict:
    """Normal form of a snapshot (spec JSON or projection): sets sorted, index maps sorted."""
    return {"T": sorted(s["T"]), "E": sorted(s["E"]), "S": sorted(s["S"]), "D": sorted(s["D"]),
            "eng": [{"id": e["id"], "T": list(e["T"]), "S": list(e["S"]), "dims": list(e["dims"]),
                     "tix": sorted(list(p) for p in e["tix"]), "six": sorted(list(p) for p in e["six"])} for e in s["eng"]]}


def key(s: dict) -> str:
    return json.dumps(norm(s), sort_keys=True, separators=(",", ":"))


def diff(real: dict, spec: dict) -> str | None:
    a, b = norm(real), norm(spec)
    for f in NAMED:
        if a[f] != b[f]:
            return {"T": "targets", "E": "estimates", "S": "sensors", "D": "agent-rows"}[f]
    if [e["id"] for e in a["eng"]] != [e["id"] for e in b["eng"]]:
        return "engines"
    for x, y in zip(a["eng"], b["eng"]):
        for f, name in (("T", "target-list"), ("S", "sensor-list"), ("dims", "matrix-shape"), ("tix", "target-indices"),
                        ("six", "sensor-indices")):
            if x[f] != y[f]:
                return name
    if any(not e.get("shapes_agree", True) for e in real["eng"]):
        return "matrix-shapes-disagree"
    return None


# ------------------------------------------------------------------------------------------------
class _Alarm:
    def __init__(self, seconds):
        self.seconds = seconds

    def __enter__(self):
        def handler(signum, frame):
            raise TimeoutError("real code did not return")
        self.old = signal.signal(signal.SIGALRM, handler)
        signal.alarm(self.seconds)

    def __exit__(self, *a):
        signal.alarm(0)
        signal.signal(signal.SIGALRM, self.old)


class Recorder:
    def __init__(self):
        self.app = None
        self.events = []
        self.in_step = False

    def emit(self, ev, **kw):
        kw["ev"] = ev
        self.events.append(kw)

    def snap(self):
        return norm(project(self.app)) if self.app is not None else dict(EMPTY_SNAP)


def _label(ex) -> str:
    return type(ex).__name__


def install():
    """Wrap the public membership methods of the REAL classes (once per process)."""
    if _INSTALLED[0]:
        return
    _INSTALLED[0] = True
    world()
    from resonaate.scenario.scenario import Scenario
    from resonaate.tasking.engine.centralized_engine import CentralizedTaskingEngine

    def ident(spec):
        return spec["id"] if isinstance(spec, dict) else getattr(spec, "id", spec)

    def wrap_member(name, op, dispatch):
        orig = Scenario.__dict__[name]

        def w(self, spec, tasking_engine_id):
            r = _REC[0]
            call = orig.__get__(self, type(self)) if dispatch else (lambda a, b: orig(self, a, b))
            if r is None or r.app is not self:
                return call(spec, tasking_engine_id)
            out = "ok"
            try:
                return call(spec, tasking_engine_id)
            except Exception as ex:  # noqa: BLE001
                out = _label(ex)
                raise
            finally:
                r.emit("Deliver" if r.in_step else "Call", op=op, id=aid(ident(spec)), eng=int(tasking_engine_id), out=out,
                       snap=r.snap())
        w.__name__ = name
        setattr(Scenario, name, w)

    wrap_member("addTarget", "addT", True)
    wrap_member("addSensor", "addS", True)
    wrap_member("removeTarget", "remT", False)
    wrap_member("removeSensor", "remS", False)

    orig_step = Scenario.stepForward

    def stepForward(self):
        r = _REC[0]
        if r is None or r.app is not self:
            return orig_step(self)
        r.emit("StepBegin")
        r.in_step = True
        out = "ok"
        try:
            return orig_step(self)
        except Exception as ex:  # noqa: BLE001
            out = _label(ex)
            raise
        finally:
            r.in_step = False
            r.emit("StepEnd", out=out, snap=r.snap())
    Scenario.stepForward = stepForward

    orig_save = Scenario.saveDatabaseOutput

    def saveDatabaseOutput(self):
        r = _REC[0]
        if r is None or r.app is not self:
            return orig_save(self)
        out = "ok"
        try:
            return orig_save(self)
        except Exception as ex:  # noqa: BLE001
            out = _label(ex)
            raise
        finally:
            r.emit("Save", out=out, snap=r.snap())
    Scenario.saveDatabaseOutput = saveDatabaseOutput

    orig_assess = CentralizedTaskingEngine.assess

    def assess(self, *a, **k):
        r = _REC[0]
        if r is None or r.app is None or self not in r.app.tasking_engines.values():
            return orig_assess(self, *a, **k)
        out = "ok"
        try:
            return orig_assess(self, *a, **k)
        except Exception as ex:  # noqa: BLE001
            out = _label(ex)
            raise
        finally:
            r.emit("Assess", eng=int(self.unique_id), out=out,
                   dims=[int(self.reward_matrix.shape[0]), int(self.reward_matrix.shape[1])])
    CentralizedTaskingEngine.assess = assess


_FORCED = [False]
_FORCE_PATCHED = [False]


def force_sensing(on: bool):
    """Environment switch: when on, every sensor 'sees' every target it is asked about (prediction, slew and the
    attempt itself succeed, the observation is the real measurement of the true state), so that a step really runs
    reward -> decision -> task execution -> observation -> estimate update over the membership under test.  Off: the
    real visibility geometry (with the test configuration's ground sites: nothing is visible in the first minutes)."""
    _FORCED[0] = bool(on)
    if not on or _FORCE_PATCHED[0]:
        return
    _FORCE_PATCHED[0] = True
    world()                 # installs the scheduler stand-in BEFORE resonaate is imported
    import resonaate.parallel.tasking_reward_generation as trg
    from resonaate.common.utilities import getTypeString
    from resonaate.data.observation import Observation
    from resonaate.sensors.sensor_base import Sensor
    real_predict, real_slew, real_attempt = trg.predictObservation, Sensor.canSlew, Sensor.attemptObservation

    def mk_obs(sensor, target_agent, noisy):
        return Observation.fromMeasurement(
            epoch_jd=sensor.host.julian_date_epoch, target_id=target_agent.simulation_id,
            tgt_eci_state=target_agent.eci_state, sensor_id=sensor.host.simulation_id,
            sensor_eci=sensor.host.eci_state, sensor_type=getTypeString(sensor),
            measurement=sensor.measurement if hasattr(sensor, "measurement") else sensor._measurement,  # noqa: SLF001
            noisy=noisy)

    def predict(sensor_agent, estimate_agent):
        if not _FORCED[0]:
            return real_predict(sensor_agent, estimate_agent)
        return mk_obs(sensor_agent.sensors, estimate_agent, False)

    def can_slew(self, sez):
        return True if _FORCED[0] else real_slew(self, sez)

    def attempt(self, target_agent, pointing_sez):
        return mk_obs(self, target_agent, True) if _FORCED[0] else real_attempt(self, target_agent, pointing_sez)

    trg.predictObservation = predict
    Sensor.canSlew = can_slew
    Sensor.attemptObservation = attempt


def build_real(acfg: dict, n_steps: int = 8):
    """REAL ScenarioConfig + ScenarioBuilder + Scenario for an abstract configuration -> (recorder, outcome label)."""
    install()
    su = world()["su"]
    r = Recorder()
    _REC[0] = None
    out, app = "ok", None
    try:
        with _Alarm(60):
            app = su.build(real_cfg(acfg, n_steps))
    except TimeoutError:
        raise
    except Exception as ex:  # noqa: BLE001
        out = _label(ex)
        r.error = f"{type(ex).__name__}: {ex}"[:300]
    r.app = app
    _REC[0] = r
    r.emit("Build", out=out, snap=r.snap())
    return r, out


def apply(r: Recorder, op: dict) -> tuple[str, dict]:
    """One direct public call on the real Scenario -> (outcome label, projection afterwards)."""
    app = r.app
    name, out = op["op"], "ok"
    try:
        with _Alarm(60):
            if name == "addT":
                app.addTarget(target_spec(op["id"]), int(op["eng"]))
            elif name == "remT":
                app.removeTarget(rid(op["id"]), int(op["eng"]))
            elif name == "addS":
                app.addSensor(sensor_spec(op["id"]), int(op["eng"]))
            elif name == "remS":
                app.removeSensor(rid(op["id"]), int(op["eng"]))
            elif name == "step":
                app.stepForward()
            elif name == "save":
                app.saveDatabaseOutput()
            else:
                raise ValueError(name)
    except TimeoutError:
        raise
    except Exception as ex:  # noqa: BLE001
        out = _label(ex)
    return out, project(app)


def opkey(op: dict) -> str:
    return f"{op['op']}:{op['id']}:{op['eng']}"


# ------------------------------------------------------------------------------------------------
# worker-side routines (run in the process pool)
def warm(_i):
    install()
    return 0


def replay_builds(items):
    """[(abstract cfg, spec outcome, spec snapshot)] -> list of mismatches; every build is a REAL build."""
    bad, n_ok = [], 0
    for acfg, want_out, want_snap in items:
        r, out = build_real(acfg)
        got = r.events[0]["snap"]
        what = None
        if out != want_out:
            what = "outcome"
        elif out == "ok":
            what = diff(project(r.app), want_snap)
            n_ok += 1
        if what:
            bad.append({"cfg": acfg, "what": what, "spec_out": want_out, "real_out": out, "spec": norm(want_snap), "real": got,
                        "error": getattr(r, "error", None)})
    _REC[0] = None
    return {"n": len(items), "n_ok": n_ok, "bad": bad}


def tour(job):
    """Transition tour: apply every edge of `mine` (a set of (node, opkey)) at least once in the real Scenario.

    job = {root: abstract cfg, init: node key, edges: {node: {opkey: [op, out, post node, crashed]}}, mine: [[node, opkey]]}
    The real Scenario is walked through the specification's graph; after every call the outcome label and the
    projected state must be the edge's; shortest known paths lead to nodes with unexplored edges, a fresh REAL build
    restarts after a crash or when nothing is reachable."""
    from collections import deque
    acfg, init, edges = job["root"], job["init"], job["edges"]
    force_sensing(job.get("forced", False))
    todo = {(n, o) for n, o in job["mine"]}
    bad, applied, builds, trace_sample = [], 0, 0, None
    r, out = build_real(acfg)
    builds += 1
    if out != "ok" or key(r.events[0]["snap"]) != init:
        return {"applied": 0, "builds": builds, "bad": [{"root": acfg["name"], "cfg": acfg, "what": "root-build", "real_out": out,
                                                         "real": r.events[0]["snap"], "spec": json.loads(init)}], "left": len(todo)}
    cur = init
    trail = []              # operations applied since the last build (replay information of a disagreement)

    def path_to_work(src):
        """shortest op path from src to a node that still has unexplored edges of mine"""
        seen, q = {src: None}, deque([src])
        while q:
            n = q.popleft()
            if any((n, o) in todo for o in edges.get(n, ())):
                p = []
                while seen[n] is not None:
                    pn, o = seen[n]
                    p.append(o)
                    n = pn
                return list(reversed(p))
            for o, (_op, _out, post, crashed) in edges.get(n, {}).items():
                if not crashed and post not in seen and (n, o) not in broken:
                    seen[post] = (n, o)
                    q.append(post)
        return None

    guard = 0
    broken = set()          # edges on which the real code disagreed: never route through them again
    while todo and guard < 4 * len(job["mine"]) + 1000 and len(bad) < 25:
        guard += 1
        mine_here = sorted(o for o in edges.get(cur, ()) if (cur, o) in todo)
        if mine_here:
            plan = [mine_here[0]]
        else:
            plan = path_to_work(cur)
            if plan is None:
                r, out = build_real(acfg)
                builds += 1
                cur, trail = init, []
                plan = path_to_work(cur)
                if plan is None:
                    break
        for o in plan:
            op, want_out, post, crashed = edges[cur][o]
            got_out, got = apply(r, op)
            applied += 1
            trail.append(op)
            todo.discard((cur, o))
            what = None
            if got_out != want_out:
                what = "outcome"
            else:
                what = diff(got, json.loads(post))
            if what:
                bad.append({"root": acfg["name"], "cfg": acfg, "pre": json.loads(cur), "op": op, "what": what, "spec_out": want_out,
                            "real_out": got_out, "spec": json.loads(post), "real": norm(got), "path": list(trail)})
            if what:
                broken.add((cur, o))
            if what or crashed:
                r, out = build_real(acfg)
                builds += 1
                cur, trail = init, []
                break
            cur = post
    _REC[0] = None
    return {"applied": applied, "builds": builds, "bad": bad, "left": len(todo)}


def run_behaviour(job):
    """A TLC behaviour (root cfg, [op, spec outcome, spec post, spec pc]) replayed by direct public calls; returns the
    recorded trace (for TLC validation) and the first mismatch."""
    acfg, steps = job["cfg"], job["steps"]
    force_sensing(job.get("forced", False))
    r, out = build_real(acfg)
    bad = None
    want_build = job.get("build", {"out": "ok"})
    if out != want_build["out"]:
        bad = {"at": 0, "what": "outcome", "spec_out": want_build["out"], "real_out": out}
    elif "snap" in want_build and out == "ok":
        w = diff(project(r.app), want_build["snap"])
        if w:
            bad = {"at": 0, "what": w, "spec": norm(want_build["snap"]), "real": r.events[0]["snap"]}
    n = 0
    if out == "ok" and bad is None:
        for i, st in enumerate(steps):
            got_out, got = apply(r, st["op"])
            n += 1
            if job.get("unchecked"):        # replay of a recorded trace: only drive the real code, TLC judges the trace
                if got_out != "ok" and st["op"]["op"] in ("step", "save"):
                    break
                continue
            what = "outcome" if got_out != st["op"]["out"] else (diff(got, st["post"]) if st.get("post") else None)
            if what:
                bad = {"at": i + 1, "op": st["op"], "what": what, "spec_out": st["op"]["out"], "real_out": got_out,
                       "spec": norm(st["post"]) if st.get("post") else None, "real": norm(got)}
                break
            if got_out != "ok" and st["op"]["op"] in ("step", "save"):
                break
    next_step = None
    if job.get("then_step") and out == "ok" and bad is None and not (steps and steps[-1]["op"]["op"] in ("step", "save")
                                                                      and steps[-1]["op"]["out"] != "ok"):
        next_step = apply(r, {"op": "step", "id": 0, "eng": 0})[0]
    _REC[0] = None
    return {"trace": {"cfg": acfg, "ev": r.events}, "bad": bad, "applied": n, "next_step": next_step,
            "final": r.events[-1].get("snap") if r.events else None}


def run_event_case(job):
    """A REAL scenario whose configuration holds target_addition / sensor_addition / agent_removal EVENTS, run with the
    public propagateTo for n steps; the recorded trace is validated by TLC."""
    acfg, n = job["cfg"], job["nsteps"]
    force_sensing(job.get("forced", False))
    su = world()["su"]
    r, out = build_real(acfg, n_steps=max(n, 2))
    err = None
    if out == "ok":
        try:
            with _Alarm(120):
                su.run_for(r.app, n * STEP)
        except TimeoutError:
            raise
        except Exception as ex:  # noqa: BLE001
            err = f"{type(ex).__name__}: {ex}"[:200]
    _REC[0] = None
    return {"trace": {"cfg": acfg, "ev": r.events}, "error": err, "build": out}
