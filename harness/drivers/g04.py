"""G04 (spec growth) - life-cycle of ONE APPLICATION RUN, from the command line to shutdown.

Specification: spec/RunLifecycle.tla (one action per line-level stage of resonaate.main / runResonaate /
buildScenarioFromConfigFile / buildScenarioFromConfigDict / createDatabasePath / setDBPath /
Scenario.propagateTo / Scenario.shutdown; failure branches as separate disjuncts; the process-wide and
on-disk state a run leaves behind).  MCRunLifecycle.tla holds the input-class sets, TraceRunLifecycle.tla
re-uses the actions for trace validation.

1. TLC checks the module exhaustively over every combination of the posed input classes (entry point x
   duration class x output cadence / truth-only x database-path class x importer-path class x init-message
   class x --debug x environment class x injected failure): all guarantees, the refinement of Durations.tla,
   liveness (every run terminates) under fairness on a smaller product, action coverage; every X...
   expectation the code as it is does not meet must be REFUTED by TLC (its counterexample is replayed into
   the real code and listed as an observation); every named deviation constant (spec mutant) must be refuted.
2. spec -> impl: TLC prints the predicted outcome and side effects of every input class combination; a
   stratified sample (every distinct prediction several times, every TLC counterexample) is run through the
   REAL resonaate.main() (sys.argv set) / resonaate.runResonaate in a process of its own (a fork of a
   pristine template process per behaviour; some in a brand-new interpreter), cwd = a scratch directory, real
   JSON init messages, real SQLite files, ray = harness/sched.py's stand-in with the init / shutdown /
   timeline / actor-lifetime contract added from outside; the projected outcome must equal the prediction.
3. impl -> spec: the stage events recorded by wrappers in the process of the run are validated by TLC against
   TraceRunLifecycle.tla, all guarantees evaluated in every state.
A violation is reported ONLY when the real code disagrees with the specification; the refuted expectations
are observations (ctx.extra["observations"]).
"""
from __future__ import annotations

import json
import os
import random
import re
from concurrent.futures import ProcessPoolExecutor, ThreadPoolExecutor

from .. import tlc
from ..core import Ctx
from . import _runlifecycle as rl

LEVEL = "model_checking"
FIELDS = ["entry", "reqSec", "dt", "outEvery", "truthOnly", "db", "imp", "cfg", "debug", "rayPre", "dbPre", "injKind", "injStep"]
GUARANTEES = ["TypeOK", "ShutdownAfterBuild", "ShutdownOnlyAfterBuild", "ExitIsShutdownOrFailed", "StepsHonoured",
              "TooShortIsValueError", "DbHoldsOutputEpochs", "DbRowsOnlyWhenBuilt", "InterruptIsGraceful", "ErrorPropagates",
              "NeverOverwrite", "ImporterNeverModified", "RayInitAtMostOnce", "DbPathOwner", "NoDatabaseBeforeValidation",
              "DebugIsFlag", "OutcomeIsFirstFailingStage", "DurStepsHonoured", "DurEpochs", "DurNoOvershoot",
              "DurStopsOnlyWhenNoStepFits"]
ACTION_PROPS = ["DbMonotone", "RayDownOnlyByShutdown", "StepsInOrder", "RefinesDurations"]
DEVIATIONS = {  # spec mutant -> the guarantees it is aimed at (TLC must refute at least one guarantee)
    "ShutdownNotInFinally": {"ShutdownAfterBuild", "ErrorPropagates", "TooShortIsValueError"},
    "NoExistenceCheck": {"NeverOverwrite", "OutcomeIsFirstFailingStage"},
    "MinutesForHours": {"StepsHonoured", "TooShortIsValueError", "OutcomeIsFirstFailingStage"},
    "SkipSetDbPathWhenGiven": {"OutcomeIsFirstFailingStage", "DbPathOwner"},
    "InterruptCatchesAll": {"ErrorPropagates", "OutcomeIsFirstFailingStage"},
    "SaveEveryStep": {"DbHoldsOutputEpochs"},
    "CeilSteps": {"StepsHonoured", "DurNoOvershoot", "DurStepsHonoured", "DurStopsOnlyWhenNoStepFits"},
}
ACTIONS = ["PoseEntry", "PoseTime", "PoseMode", "PoseDb", "PoseImp", "PoseCfg", "PoseEnv", "PoseInject", "Begin",
           "ParseArgs", "EnterRun", "SetDebug", "ImporterPath", "SkipImporter", "ParseConfig", "RayCheck", "RayInit",
           "CreateDbPath", "SetDbPath", "Validate", "Builder", "ScenarioInit", "ComputeTarget", "PropagateBegin", "StepOk",
           "StepInterrupted", "StepFails", "StepMissingEphemeris", "SaveOutput", "SkipOutput", "PropagateEnd",
           "HandleInterrupt", "LogComplete", "BeginShutdown", "WriteTimeline", "RayShutdown"]
# expectation -> (what a user might expect, one-line judgement whether a maintainer would call it a defect)
EXPECTATIONS = {
    "XRayReleased": ("a run that called ray.init releases ray, also when the build fails",
                     "defect (minor): every failure between ray.init and the end of the build leaves the ray instance up; "
                     "harmless for a CLI process that exits, a leak for an embedding process / test-suite"),
    "XDbPathReleased": ("the shared DB path set by the run is released when the build fails",
                        "defect: after a failed build a second buildScenarioFromConfig* in the same process fails with "
                        "DBConnectionError ('setDBPath() should only be called once') although no scenario exists"),
    "XCwdUntouched": ("the run writes nothing into the working directory that was not asked for",
                      "design wart: ./db and ./timeline_<now>.json are created in whatever directory the user happens to be in"),
    "XNoTimelineInCwd": ("no profiling file appears in the working directory",
                         "defect (usability): every run that got as far as a scenario drops timeline_<now>.json into the cwd, "
                         "unconditionally (no flag), also after a failure"),
    "XDefaultDirOnlyWhenUsed": ("the default ./db directory only appears together with a database in it",
                                "defect (minor): createDatabasePath makes the directory before setDBPath / validation can fail"),
    "XFailedBuildLeavesNoDatabase": ("a failed build leaves no partial database",
                                     "defect: a scenario with an imported agent and no importer path fails in Scenario.__init__ "
                                     "AFTER the builder created the database file (epochs + agents, no ephemeris); the file then "
                                     "blocks a re-run with the same -d path (FileExistsError)"),
    "XFailedRunLeavesNoDirectories": ("a run that produced no database created no directories",
                                      "defect (minor): directories are created before the remaining checks"),
    "XImporterNeverCreated": ("a missing importer database is reported, not created",
                              "defect: through the API (runResonaate / buildScenarioFromConfigFile) a mistyped importer path is "
                              "silently created as an empty database; the run then fails at step 1 with MissingEphemerisError or, "
                              "when nothing is imported, completes; the CLI is protected by fileChecker"),
    "XShutdownOnlyOwnRay": ("the run only shuts down a ray instance it started",
                            "probably intended for the CLI; surprising for an embedding process whose ray instance is shut down"),
    "XInterruptDistinguishable": ("an interrupted run ends differently from a completed one",
                                  "design choice: Ctrl-C is swallowed, runResonaate returns normally (exit status 0); only the log tells"),
    "XDurationCheckedBeforeBuild": ("a duration shorter than one step is rejected before anything is built",
                                    "defect (usability): -t below one step (or 0) builds the whole scenario, writes the database, "
                                    "the timeline and then raises ValueError(<delta>) without a message"),
    "XFinalStateSaved": ("after normal completion the database holds the final state",
                         "defect (data loss at the end of a run): when the number of steps is not a multiple of the output cadence "
                         "the steps after the last output step are computed but never written"),
    "XExistingCheckedFirst": ("an existing output file is reported before ray is started",
                              "minor: ray.init precedes the FileExistsError check, so the failure costs a ray start and leaves it up"),
}


def key_of(inp: dict) -> tuple:
    return tuple(inp[f] for f in FIELDS)


PLAIN = {"entry": "cli", "reqSec": 150, "dt": 60, "outEvery": 1, "truthOnly": True, "db": "none", "imp": "none", "cfg": "valid",
         "debug": False, "rayPre": False, "dbPre": False, "injKind": "none", "injStep": 0}


def simplicity(inp: dict):
    """Order in which a representative input of a class is picked: fewest departures from the plain run first."""
    return (sum(1 for f in FIELDS if inp[f] != PLAIN[f]), repr(key_of(inp)))


def norm_inp(inp: dict) -> dict:
    return {f: inp[f] for f in FIELDS}


# ------------------------------------------------------------------------------------------------
# TLC side
def cfg_text(ctx_quick: bool, *, sets: dict | None = None, spec="Spec", invariants=(), props=(), dev=()) -> str:
    base = {"Entries": "EntriesAll", "TimeClasses": "TimesQuick" if ctx_quick else "TimesThorough",
            "Modes": "ModesQuick" if ctx_quick else "ModesThorough", "DbClasses": "DbAll", "ImpClasses": "ImpAll",
            "CfgClasses": "CfgAll", "EnvClasses": "EnvAll", "Injections": "InjQuick" if ctx_quick else "InjThorough"}
    base.update(sets or {})
    debugs = base.pop("Debugs", "{TRUE, FALSE}")
    s = f"SPECIFICATION {spec}\nCONSTANTS\n" + "".join(f"  {k} <- {v}\n" for k, v in base.items())
    s += f"  Debugs = {debugs}\n"
    s += "".join(f"  {d} = {'TRUE' if d in dev else 'FALSE'}\n" for d in DEVIATIONS)
    s += "".join(f"INVARIANT {i}\n" for i in invariants) + "".join(f"PROPERTY {p}\n" for p in props)
    return s


SMALL = {"TimeClasses": "TimesLive", "Modes": "ModesLive", "Debugs": "{FALSE}", "Injections": "InjQuick"}
TINY = {"TimeClasses": "TimesLive", "Modes": "ModesLive", "Debugs": "{FALSE}", "CfgClasses": "CfgTiny", "Injections": "InjTiny"}

_REC_FIELD = re.compile(r'(\w+) \|-> ("[^"]*"|-?\d+|TRUE|FALSE)')


def inp_of_state(state_text: str) -> dict | None:
    m = re.search(r"/\\ inp = \[([^\]]*)\]", state_text, re.S)
    if not m:
        return None
    out = {}
    for name, val in _REC_FIELD.findall(m.group(1)):
        out[name] = json.loads(val) if val.startswith('"') else (val == "TRUE") if val in ("TRUE", "FALSE") else int(val)
    return norm_inp(out) if all(f in out for f in FIELDS) else None


def _tlc(ctx: Ctx, name, cfg, **kw):
    return tlc.run_tlc("MCRunLifecycle", cfg, ctx.sub("tlc_" + name), **kw)


def main_run(ctx: Ctx):
    """Exhaustive run over all input class combinations: guarantees + PRED lines."""
    res = _tlc(ctx, "main", cfg_text(ctx.quick, invariants=GUARANTEES + ["Emit"], props=ACTION_PROPS),
               workers=max(4, ctx.cpus // 2), timeout=2400, heap="6g")
    tlc.require_ok(res, "RunLifecycle exhaustive")
    ctx.add_tlc(res, "RunLifecycle.tla exhaustive over all input class combinations: guarantees, Durations refinement, PRED lines")
    viol = [v[0] for v in res.invariant_violations] + [v[0] for v in res.property_violations]
    if viol:
        raise tlc.MachineryError(f"RunLifecycle.tla violates its own guarantees: {viol}\n"
                                 + "\n".join((res.invariant_violations or res.property_violations)[0][1][-2:]))
    preds = res.tagged("PRED")
    if not preds:
        raise tlc.MachineryError("no PRED lines from TLC")
    return preds


def side_runs(ctx: Ctx, preds: list):
    """Liveness + coverage, refutation of the expectations, spec mutants (small input products).

    Every expectation X is refuted twice over: (a) the exhaustive run evaluated the formula X in every exit state (the
    `broken` field of the PRED lines is {X : X is FALSE in that state}); (b) TLC run with X as a named INVARIANT on a small
    input product produces the counterexample trace - thorough tier: all of them, quick tier: three (rotating with the seed)."""
    jobs = [("live", cfg_text(True, sets=TINY if ctx.quick else SMALL, spec="FairSpec", invariants=GUARANTEES,
                              props=ACTION_PROPS + ["Terminates"]), {"coverage": True})]
    xs = list(EXPECTATIONS)
    as_invariant = xs if not ctx.quick else [xs[(ctx.seed * 3 + i * 5) % len(xs)] for i in range(3)]
    for x in as_invariant:
        jobs.append(("x_" + x, cfg_text(True, sets=TINY, invariants=[x]), {}))
    for d in DEVIATIONS:
        jobs.append(("mut_" + d, cfg_text(True, sets=TINY if ctx.quick else SMALL, invariants=GUARANTEES, props=ACTION_PROPS,
                                          dev=(d,)), {}))

    def one(j):
        name, cfg, kw = j
        return name, _tlc(ctx, name, cfg, workers=2, timeout=900, **kw)

    with ThreadPoolExecutor(4) as ex:
        results = list(ex.map(one, jobs))
    refuted, killed = {}, {}
    for x in xs:            # (a): the smallest input class for which TLC evaluated X to FALSE
        hits = [p for p in preds if x in p["broken"]]
        if not hits:
            raise tlc.MachineryError(f"expectation {x} is FALSE in no exit state of the exhaustive run (the model meets it)")
        refuted[x] = {"inp": min((p["inp"] for p in hits), key=simplicity), "exit_states_breaking_it": len(hits),
                      "tlc_inp": None, "counterexample_trace_len": None}
    for name, res in results:
        tlc.require_ok(res, name)
        viol = [v[0] for v in res.invariant_violations] + [v[0] for v in res.property_violations]
        if name == "live":
            ctx.add_tlc(res, "RunLifecycle.tla under FairSpec: Terminates (liveness), guarantees, action coverage")
            if viol:
                raise tlc.MachineryError(f"RunLifecycle.tla (FairSpec) violates {viol}")
            cov = {a: res.coverage.get(f"RunLifecycle!{a}", (0, 0))[1] for a in ACTIONS}
            # the staged Pose... actions are all instances of the operator Pose: TLC reports them per call site
            sites = sorted((int(m.group(1)), int(m.group(2))) for m in re.finditer(
                r"^<Pose line \d+, col \d+ to line \d+, col \d+ of module RunLifecycle \((\d+) [\d ]+\)>: \d+:(\d+)", res.stdout, re.M))
            pose = [a for a in ACTIONS if a.startswith("Pose")]
            if len(sites) == len(pose):
                cov.update({a: t for a, (_line, t) in zip(pose, sites)})
            missing = [a for a in ACTIONS if cov[a] == 0]
            if missing:
                raise tlc.MachineryError(f"actions never taken: {missing}")
            ctx.extra["action_coverage"] = cov
        elif name.startswith("x_"):
            x = name[2:]
            ctx.add_tlc(res, f"expectation {x}: TLC must refute it for the code as it is")
            if x not in viol:
                raise tlc.MachineryError(f"expectation {x} is NOT refuted by TLC (the model meets it - move it to the guarantees)")
            states = res.invariant_violations[0][1]
            inp = inp_of_state(states[-1]) if states else None
            if inp is None:
                raise tlc.MachineryError(f"could not read the input of the counterexample of {x}")
            refuted[x].update({"tlc_inp": inp, "counterexample_trace_len": len(states)})
        else:
            d = name[4:]
            ctx.add_tlc(res, f"spec mutant {d}=TRUE must be refuted")
            if not viol:        # BFS reports the shallowest violated guarantee; DEVIATIONS[d] lists the ones aimed at
                raise tlc.MachineryError(f"spec mutant {d} not killed (aimed at {sorted(DEVIATIONS[d])})")
            killed[d] = sorted(set(viol))
    ctx.extra["spec_mutants_killed"] = killed
    return refuted


# ------------------------------------------------------------------------------------------------
# projections
def pred_signature(p: dict, coarse: bool = False) -> tuple:
    """What TLC predicts for an input, without the input (coarse: step counts capped, --debug and the list of broken
    expectations left out - the quick tier stratifies by this)."""
    sig = (p["outcome"], p["dbFile"], p["dbAgents"], p["rayInits"], p["rayShutdowns"], p["rayUp"], p["kvs"],
           tuple(sorted(p["tree"])), p["impFile"], p["existing"], p["logLine"], p["built"])
    if coarse:
        return sig + (min(p["k"], 3), len(p["dbEpochs"]) == p["k"] + 1, bool(p["estEpochs"]))
    return sig + (p["k"], tuple(p["dbEpochs"]), tuple(p["estEpochs"]), p["debugMode"], tuple(sorted(p["broken"])))


def real_projection(r: dict) -> dict:
    ev = r["ev"]
    dbp = r["dbp"]
    created = dbp["file"] == "created"
    return {
        "outcome": r["outcome"], "k": r["steps"], "dbFile": dbp["file"],
        "dbAgents": bool(created and dbp.get("agents") == rl.N_TARGETS + rl.N_SENSORS),
        "dbEpochs": list(dbp.get("truth", [])) if created else [], "estEpochs": list(dbp.get("est", [])) if created else [],
        "rayInits": r["ray"]["init"], "rayShutdowns": r["ray"]["shutdown"], "rayUp": bool(r["ray"]["up"]), "kvs": r["kvs"],
        "tree": sorted(r["tree"]), "impFile": r["imp"], "existing": r["existing"], "debugMode": bool(r["debugMode"]),
        "logLine": "complete" if any(e["ev"] == "LogComplete" for e in ev) else
                   "terminated" if any(e["ev"] == "LogTerminated" for e in ev) else "none",
        "built": any(e["ev"] == "ScenarioInit" and e["ok"] for e in ev),
    }


COMPARED = ["outcome", "k", "logLine", "built", "rayInits", "rayShutdowns", "rayUp", "kvs", "dbFile", "dbAgents", "dbEpochs",
            "estEpochs", "existing", "impFile", "tree", "debugMode"]


def compare(pred: dict, real: dict) -> list:
    out = []
    for f in COMPARED:
        a = sorted(pred[f]) if isinstance(pred[f], list) else pred[f]
        b = sorted(real[f]) if isinstance(real[f], list) else real[f]
        if a != b:
            out.append(f)
    return out


TRACE_EVENTS = {"ParseArgs", "RunBegin", "BuildBegin", "CreateDbPath", "ParseConfig", "RayCheck", "RayInit", "SetDbPath",
                "Validate", "Builder", "ScenarioInit", "ComputeTarget", "PropagateBegin", "Step", "StepRaise", "Save",
                "PropagateEnd", "LogTerminated", "LogComplete", "ShutdownBegin", "Timeline", "RayShutdown"}


def trace_of(r: dict) -> dict:
    ev = [e for e in r["ev"] if e["ev"] in TRACE_EVENTS]
    dbp = dict(r["dbp"])
    for f in ("truth", "est"):
        dbp.setdefault(f, [])
    dbp.setdefault("agents", 0)
    ev.append({"ev": "Exit", "outcome": r["outcome"], "steps": r["steps"], "clockK": r["clockK"], "rayUp": bool(r["ray"]["up"]),
               "rayInits": r["ray"]["init"], "rayShutdowns": r["ray"]["shutdown"], "kvs": r["kvs"],
               "debugMode": bool(r["debugMode"]), "tree": r["tree"], "dbp": dbp, "imp": r["imp"], "existing": r["existing"]})
    return {"inp": norm_inp(r["inp"]), "ev": ev}


def validate(ctx: Ctx, results: list, name: str) -> list:
    """Validate the recorded traces with TraceRunLifecycle.tla; one verdict per result."""
    traces = [trace_of(r) for r in results]
    verdicts = [None] * len(results)
    chunk = 400
    parts = [list(range(i, min(i + chunk, len(traces)))) for i in range(0, len(traces), chunk)]

    def run_part(item):
        pi, idxs = item
        d = ctx.sub(f"{name}_p{pi}")
        (d / "traces.json").write_text(json.dumps([traces[i] for i in idxs]))
        cfg = ("SPECIFICATION TraceSpec\nCONSTANTS\n"
               + "".join(f"  {c} = {{}}\n" for c in ("Entries", "TimeClasses", "Modes", "DbClasses", "ImpClasses", "CfgClasses",
                                                      "Debugs", "EnvClasses", "Injections"))
               + "".join(f"  {x} = FALSE\n" for x in DEVIATIONS)
               + "".join(f"INVARIANT {i}\n" for i in ["Accept"] + GUARANTEES) + "".join(f"PROPERTY {q}\n" for q in ACTION_PROPS))
        res = tlc.run_tlc("TraceRunLifecycle", cfg, d, workers=min(max(2, ctx.cpus // 4), 8), cont=True,
                          env={"TRACE_FILE": "traces.json"}, timeout=1500)
        tlc.require_ok(res, f"trace validation {name} part {pi}")
        return idxs, res

    with ThreadPoolExecutor(3) as ex:
        outs = list(ex.map(run_part, enumerate(parts)))
    for idxs, res in outs:
        ctx.add_tlc(res, f"trace validation ({name}): {len(idxs)} traces of real runs against TraceRunLifecycle.tla")
        reached = {}
        for t_id, pos, _end in res.tuples("AT"):
            reached[t_id] = max(reached.get(t_id, 0), pos)
        local = [None] * len(idxs)
        for inv, states in list(res.invariant_violations) + [(p[0], p[1]) for p in res.property_violations]:
            if inv == "Accept":
                continue
            txt = "\n".join(states)
            m_t, m_l = re.findall(r"/\\ tid = (\d+)", txt), re.findall(r"/\\ l = (\d+)", txt)
            if m_t:
                j = int(m_t[-1]) - 1
                if local[j] is None:
                    line = int(m_l[-1]) - 1 if m_l else 0
                    evs = traces[idxs[j]]["ev"]
                    local[j] = {"ok": False, "kind": "invariant", "invariant": inv, "at": line,
                                "event": evs[line - 1] if 0 < line <= len(evs) else None}
        for j, i in enumerate(idxs):
            if local[j] is None:
                evs = traces[i]["ev"]
                pos = reached.get(j + 1, 1)
                local[j] = ({"ok": True, "kind": "accepted"} if pos == len(evs) + 1 else
                            {"ok": False, "kind": "rejected", "at": pos, "event": evs[pos - 1] if pos <= len(evs) else None})
            verdicts[i] = local[j]
    return verdicts


# ------------------------------------------------------------------------------------------------
def choose_cases(ctx: Ctx, preds: list, forced: list, rng) -> list:
    """Stratified sample of TLC's behaviours: every distinct prediction `per_sig` times, every TLC counterexample."""
    per_sig = 1 if ctx.quick else 3
    by_sig: dict = {}
    for p in preds:
        by_sig.setdefault(pred_signature(p, coarse=ctx.quick), []).append(p)
    chosen: dict = {}
    for sig in sorted(by_sig, key=repr):
        group = sorted(by_sig[sig], key=lambda p: key_of(p["inp"]))
        for p in rng.sample(group, min(per_sig, len(group))):
            chosen[key_of(p["inp"])] = p
    index = {key_of(p["inp"]): p for p in preds}
    for inp in forced:
        kk = key_of(inp)
        if kk in index:
            chosen[kk] = index[kk]
    # every value of every input factor among the runs that get as far as stepping
    stepping = [p for p in preds if p["built"] and p["k"] > 0]
    for f in FIELDS:
        for v in sorted({p["inp"][f] for p in stepping}, key=repr):
            pool = sorted((p for p in stepping if p["inp"][f] == v), key=lambda p: key_of(p["inp"]))
            for p in rng.sample(pool, min(1 if ctx.quick else 10, len(pool))):
                chosen[key_of(p["inp"])] = p
    ctx.extra["distinct_predictions"] = len({pred_signature(p) for p in preds})
    ctx.extra["prediction_strata_sampled"] = len(by_sig)
    return [chosen[kk] for kk in sorted(chosen, key=repr)]


def stage_reached(real: dict) -> str:
    names = [e["ev"] for e in real["ev"]]
    for st in ("RayShutdown", "PropagateBegin", "ScenarioInit", "Builder", "Validate", "SetDbPath", "CreateDbPath", "ParseConfig",
               "RunBegin", "ParseArgs"):
        if st in names:
            return st
    return "start"


def judge(ctx: Ctx, pred: dict, r: dict, verdict: dict | None, how: str) -> dict | None:
    """Compare one real run with its prediction / trace verdict; report violations.  Returns the real projection."""
    inp = pred["inp"]
    if r.get("harness_error"):
        if "timeout" in r["harness_error"]:
            ctx.violation("run-does-not-terminate", f"real run did not terminate: inp={json.dumps(inp)}", {"inp": inp})
            return None
        raise tlc.MachineryError(f"run harness failed for {inp}: {r['harness_error']}")
    real = real_projection(r)
    diff = compare(pred, real)
    if diff:
        sig = f"{diff[0]}-differs-from-prediction"
        ctx.violation(sig, f"{sig} ({how}): inp={json.dumps(inp)} predicted " + json.dumps({f: pred[f] for f in diff})
                      + " real " + json.dumps({f: real[f] for f in diff}) + f" (stage reached: {stage_reached(r)}; {r['detail'][:160]})",
                      {"inp": inp, "predicted": {f: pred[f] for f in COMPARED}, "real": real, "differs": diff})
    if verdict is not None and not verdict["ok"]:
        ev = verdict.get("event") or {}
        what = verdict["invariant"] if verdict["kind"] == "invariant" else "trace-rejected-at-" + str(ev.get("ev", "end"))
        if not diff:        # otherwise the same disagreement is already reported above
            ctx.violation(what, f"{what}: inp={json.dumps(inp)} trace line {verdict.get('at')}: {json.dumps(ev)[:400]}",
                          {"inp": inp, "verdict": verdict})
    return real


def run(ctx: Ctx):
    rng = random.Random(ctx.seed + 404)
    ctx.rule = ("one case = one posed input class combination (entry, requested seconds, step, output cadence, truth-only, "
                "db path class, importer path class, init-message class, --debug, ray pre-initialised, DB path pre-set, injected "
                "failure kind and step) run through the real entry point in a process of its own; chosen from TLC's exhaustive "
                "enumeration: every distinct predicted outcome/side-effect signature several times + every TLC counterexample + "
                "every factor value among stepping runs; non-trivial = the run gets past argument and init-message parsing")
    ctx.assumptions = [
        "ray is harness/sched.py's stand-in; its life-cycle contract is added from outside: is_initialized is a flag set by init and "
        "cleared by shutdown, a second init raises, shutdown destroys the named actors (hence the shared DB path), "
        "timeline(filename) writes the file relative to the cwd",
        "a fresh process per behaviour = a fork of a template process that has imported resonaate and executed nothing "
        "(a sample also runs in a brand-new interpreter)",
        "requested durations are whole seconds (hours = seconds / 3600 passed as repr of the float); the microsecond truncation of "
        "getTargetJulianDate is not exercised here (C05 covers the date arithmetic)",
        "KeyboardInterrupt / RuntimeError are raised on ENTRY of the injected stepForward call",
        "database contents are read back with sqlite3 (read-only) and projected to step indices through the epochs table "
        "(datetime arithmetic); per-epoch row counts must equal the number of agents / targets",
        "scenarios: 2 targets, 1 sensor, two-body, 60 s or 600 s step, truth-only or with estimation + tasking",
    ]
    nproc = max(2, min(ctx.cpus, 10))
    scratch = ctx.sub("runs")
    tdir = ctx.sub("templates")
    with ProcessPoolExecutor(max_workers=nproc) as ex:
        list(ex.map(rl.warm, range(nproc), chunksize=1))        # fork all workers before any thread exists
        tfut = {dt: ex.submit(rl.make_template, (dt, str(tdir / f"earlier_{dt}.sqlite3"), 180)) for dt in (60, 600)}
        preds = main_run(ctx)                                   # the real runs are chosen from TLC's enumeration
        templates = {}
        for dt, f in tfut.items():
            t = f.result()
            templates[str(dt)] = t["path"]
            if t["error"]:      # the reference run (scenario API, truth only) is itself a run of the code under test
                ctx.violation("reference-run-failed", f"reference run (step {dt} s) that produces the importer / earlier database "
                              f"failed: {t['error'][-400:]}", {"dt": dt, "error": t["error"]})
        for p in preds:
            p["inp"] = norm_inp(p["inp"])
        with ThreadPoolExecutor(1) as bg:
            fut_side = bg.submit(side_runs, ctx, preds)         # small TLC runs, concurrently with the real runs
            cases = choose_cases(ctx, preds, [], rng)
            # a sample in a brand-new interpreter (concurrently with the forked runs)
            n_spawn = 6 if ctx.quick else 48
            spawn_idx = sorted(rng.sample(range(len(cases)), min(n_spawn, len(cases))))
            sjobs = [(cases[i]["inp"], str(scratch / f"s{i}"), templates, 300) for i in spawn_idx]
            tp = ThreadPoolExecutor(3 if ctx.quick else 6)
            fut_spawn = [tp.submit(rl.run_spawned, j) for j in sjobs]
            jobs = [(p["inp"], str(scratch / f"c{i}"), templates, 180) for i, p in enumerate(cases)]
            results = list(ex.map(rl.run_forked, jobs, chunksize=4))
            refuted = fut_side.result()
        have = {key_of(p["inp"]) for p in cases}
        index = {key_of(p["inp"]): p for p in preds}
        more = []
        for v in refuted.values():                              # every TLC counterexample is replayed
            for inp in (v["inp"], v["tlc_inp"]):
                if inp is None:
                    continue
                kk = key_of(inp)
                if kk not in index:
                    raise tlc.MachineryError(f"counterexample input is not in the exhaustive enumeration: {inp}")
                if kk not in have:
                    have.add(kk)
                    more.append(index[kk])
        jobs = [(p["inp"], str(scratch / f"m{i}"), templates, 180) for i, p in enumerate(more)]
        results += list(ex.map(rl.run_forked, jobs, chunksize=1))
        cases += more
        spawned = [f.result() for f in fut_spawn]
        tp.shutdown()
    ok_results = [(i, r) for i, r in enumerate(results) if not r.get("harness_error")]
    # binding self-test: corrupted traces must be rejected
    import copy
    synth = []
    donor = next((r for _i, r in ok_results if r["outcome"] == "completed" and r["steps"] >= 2
                  and any(e["ev"] == "Save" for e in r["ev"])), None)
    if donor is not None:
        b1 = copy.deepcopy(donor)
        b1["ev"].remove(next(e for e in b1["ev"] if e["ev"] == "ShutdownBegin"))
        b2 = copy.deepcopy(donor)
        next(e for e in b2["ev"] if e["ev"] == "Save")["dbp"]["truth"].append(99)
        b3 = copy.deepcopy(donor)
        b3["steps"] += 1
        b4 = copy.deepcopy(donor)
        b4["ev"].remove(next(e for e in b4["ev"] if e["ev"] == "Step"))
        synth = [b1, b2, b3, b4]
    all_v = validate(ctx, [r for _i, r in ok_results] + synth, "trace")
    verdicts = {i: v for (i, _r), v in zip(ok_results, all_v)}
    synth_v = all_v[len(ok_results):]
    if any(v["ok"] for v in synth_v) or (donor is not None and len(synth_v) != 4):
        raise tlc.MachineryError(f"binding self-test: a corrupted trace was accepted: {synth_v}")
    ctx.extra["binding_selftest_rejected"] = len(synth_v)
    ctx.traces_validated += len(ok_results)

    outcomes, stages, rejected, walls = {}, {}, 0, []
    reals = {}
    for i, (p, r) in enumerate(zip(cases, results)):
        inp = p["inp"]
        nontrivial = p["rayInits"] > 0 or p["inp"]["rayPre"] and p["outcome"] not in (
            "SystemExit", "FileNotFoundError", "JSONDecodeError", "OSError", "KeyError")
        ctx.case(key_of(inp), nontrivial=bool(nontrivial),
                 sample={"inp": inp, "predicted": {f: p[f] for f in ("outcome", "k", "dbEpochs", "tree", "kvs", "rayUp")}}
                 if len(ctx.samples) < 5 and p["built"] and i % 7 == 0 else None)
        real = judge(ctx, p, r, verdicts.get(i), "fork")
        if real is None:
            continue
        reals[key_of(inp)] = (real, r)
        ctx.traces_validated += 1
        outcomes[real["outcome"]] = outcomes.get(real["outcome"], 0) + 1
        st = stage_reached(r)
        stages[st] = stages.get(st, 0) + 1
        walls.append(r.get("wall", 0))
        rejected += bool(verdicts.get(i) and not verdicts[i]["ok"])
    for i, r in zip(spawn_idx, spawned):
        if r.get("harness_error") and "timeout" not in r["harness_error"]:
            raise tlc.MachineryError(f"spawned run failed: {r['harness_error']}")
        judge(ctx, cases[i], r, None, "fresh interpreter")
        ctx.traces_validated += 1

    # observations: every refuted expectation, its counterexamples replayed into the real code
    obs = []
    by_key = {key_of(p["inp"]): p for p in cases}
    for x, (expect, judgement) in EXPECTATIONS.items():
        entry = {"expectation": x, "meaning": expect, "refuted_by_tlc": True,
                 "exit_states_where_tlc_evaluated_it_false": refuted[x]["exit_states_breaking_it"],
                 "input_class": refuted[x]["inp"], "tlc_invariant_counterexample_input": refuted[x]["tlc_inp"],
                 "tlc_invariant_counterexample_trace_len": refuted[x]["counterexample_trace_len"], "judgement": judgement}
        agree = True
        for which, inp in (("input_class", refuted[x]["inp"]), ("tlc", refuted[x]["tlc_inp"])):
            if inp is None:
                continue
            got, pred = reals.get(key_of(inp)), by_key.get(key_of(inp))
            if got is None or pred is None:
                raise tlc.MachineryError(f"counterexample of {x} was not replayed: {inp}")
            if x not in pred["broken"]:
                raise tlc.MachineryError(f"counterexample of {x} is not marked broken in its PRED line: {inp}")
            real, _r = got
            agree = agree and not compare(pred, real)
            if which == "input_class":
                entry["real_run_leaves_behind"] = {f: real[f] for f in ("outcome", "k", "rayUp", "kvs", "tree", "dbFile", "dbAgents",
                                                                          "dbEpochs", "impFile", "logLine", "rayInits", "rayShutdowns")}
        entry["real_code_agrees_with_prediction"] = agree
        obs.append(entry)
    ctx.extra["observations"] = obs
    ctx.extra.update({"behaviours_enumerated_by_tlc": len(preds), "behaviours_replayed": len(cases),
                      "replayed_in_fresh_interpreter": len(spawned), "traces_rejected": rejected,
                      "real_outcomes": dict(sorted(outcomes.items())), "stage_reached_by_real_runs": dict(sorted(stages.items())),
                      "mean_run_wall_s": round(sum(walls) / max(1, len(walls)), 3)})


def replay(ctx: Ctx, rp: dict):
    """Re-run one input: TLC predicts it (singleton input sets), the real code runs it, the trace is validated."""
    inp = norm_inp(rp["replay"]["inp"])
    d = ctx.sub("replay_tlc")
    b = lambda v: "TRUE" if v else "FALSE"  # noqa: E731
    env = "rayUpDbSet" if inp["dbPre"] else "rayUp" if inp["rayPre"] else "fresh"
    mod = ("---- MODULE ReplayRunLifecycle ----\nEXTENDS MCRunLifecycle\n"
           f'rE == {{"{inp["entry"]}"}}\nrT == {{<<{inp["reqSec"]}, {inp["dt"]}>>}}\nrM == {{<<{inp["outEvery"]}, {b(inp["truthOnly"])}>>}}\n'
           f'rD == {{"{inp["db"]}"}}\nrI == {{"{inp["imp"]}"}}\nrC == {{"{inp["cfg"]}"}}\nrV == {{"{env}"}}\n'
           f'rJ == {{<<"{inp["injKind"]}", {inp["injStep"]}>>}}\n====\n')
    (d / "ReplayRunLifecycle.tla").write_text(mod)
    cfg = cfg_text(True, sets={"Entries": "rE", "TimeClasses": "rT", "Modes": "rM", "DbClasses": "rD", "ImpClasses": "rI",
                               "CfgClasses": "rC", "EnvClasses": "rV", "Injections": "rJ", "Debugs": "{" + b(inp["debug"]) + "}"},
                   invariants=GUARANTEES + ["Emit"], props=ACTION_PROPS)
    res = tlc.run_tlc("ReplayRunLifecycle", cfg, d, workers=1, timeout=600)
    tlc.require_ok(res, "replay prediction")
    ctx.add_tlc(res, "prediction of the replayed input")
    preds = res.tagged("PRED")
    if len(preds) != 1:
        raise tlc.MachineryError(f"expected one prediction, got {len(preds)}")
    pred = preds[0]
    pred["inp"] = norm_inp(pred["inp"])
    tdir = ctx.sub("templates")
    with ProcessPoolExecutor(max_workers=1) as ex:
        templates = {str(dt): ex.submit(rl.make_template, (dt, str(tdir / f"earlier_{dt}.sqlite3"), 180)).result()["path"]
                     for dt in (60, 600)}
        r = ex.submit(rl.run_forked, (inp, str(ctx.sub("runs") / "r0"), templates, 180)).result()
    v = validate(ctx, [r], "replay")[0] if not r.get("harness_error") else None
    ctx.case(("replay",) + key_of(inp))
    judge(ctx, pred, r, v, "replay")
    ctx.traces_validated += 1
