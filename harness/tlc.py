"""Run TLC / SANY from the harness and parse what they say.

Conventions used by every specification in /verif/spec:

* a spec communicates structured data to the harness only through
  ``PrintT("TAG " \\o ToJson(value))`` lines (one println each, so lines from 16 workers
  never interleave inside a line); ``TLCResult.tagged(TAG)`` returns the decoded values;
* the harness communicates data to a spec through JSON files named by environment
  variables read with ``IOEnv.<NAME>`` (``JsonDeserialize``);
* every run happens in a scratch directory (specs are copied there) so TLC never writes
  into /verif/spec; the directory is removed by the caller (``Ctx.workdir``).
"""
from __future__ import annotations

import json
import os
import re
import shutil
import subprocess
import time
from dataclasses import dataclass, field
from pathlib import Path

SPEC_DIR = Path(__file__).resolve().parent.parent / "spec"
JAR = "/opt/veriftools/tla/tla2tools.jar:/opt/veriftools/tla/CommunityModules-deps.jar"


class MachineryError(RuntimeError):
    """TLC / SANY / driver failure that is not a property violation (exit code 2)."""


@dataclass
class TLCResult:
    module: str
    cfg: str
    cmd: str
    rc: int
    wall_s: float
    stdout: str
    states_generated: int = 0
    distinct_states: int = 0
    depth: int = 0
    invariant_violations: list = field(default_factory=list)  # [(name, [state text...])]
    property_violations: list = field(default_factory=list)
    errors: list = field(default_factory=list)
    coverage: dict = field(default_factory=dict)
    _tag_cache: dict = field(default_factory=dict)

    @property
    def ok(self) -> bool:
        return (
            self.rc == 0
            and not self.invariant_violations
            and not self.property_violations
            and not self.errors
        )

    def tagged(self, tag: str) -> list:
        """Values printed as ``PrintT("<tag> " \\o ToJson(v))``."""
        if tag in self._tag_cache:
            return self._tag_cache[tag]
        out = []
        prefix = '"' + tag + " "
        for line in self.stdout.splitlines():
            if line.startswith(prefix) and line.endswith('"'):
                inner = json.loads(line)  # TLA+ string escaping == JSON string escaping here
                out.append(json.loads(inner[len(tag) + 1 :]))
        self._tag_cache[tag] = out
        return out

    def tuples(self, tag: str) -> list:
        """Values printed as ``PrintT(<<"tag", a, b, ...>>)`` with integer/string fields."""
        out = []
        prefix = '<<"' + tag + '"'
        for line in self.stdout.splitlines():
            if line.startswith(prefix) and line.endswith(">>"):
                body = line[2:-2]
                parts = [p.strip() for p in _split_top(body)]
                vals = []
                for p in parts[1:]:
                    if p.startswith('"'):
                        vals.append(json.loads(p))
                    elif p in ("TRUE", "FALSE"):
                        vals.append(p == "TRUE")
                    else:
                        try:
                            vals.append(int(p))
                        except ValueError:
                            vals.append(p)
                out.append(vals)
        return out

    def summary(self) -> dict:
        return {
            "module": self.module,
            "states_generated": self.states_generated,
            "distinct_states": self.distinct_states,
            "depth": self.depth,
            "wall_s": round(self.wall_s, 2),
            "ok": self.ok,
        }


def _split_top(s: str) -> list:
    parts, depth, cur, in_str = [], 0, [], False
    i = 0
    while i < len(s):
        c = s[i]
        if in_str:
            cur.append(c)
            if c == "\\":
                cur.append(s[i + 1])
                i += 1
            elif c == '"':
                in_str = False
        elif c == '"':
            in_str = True
            cur.append(c)
        elif c in "<[{(":
            depth += 1
            cur.append(c)
        elif c in ">]})":
            depth -= 1
            cur.append(c)
        elif c == "," and depth == 0:
            parts.append("".join(cur))
            cur = []
        else:
            cur.append(c)
        i += 1
    if cur:
        parts.append("".join(cur))
    return parts


_RE_STATES = re.compile(r"^(\d+) states generated, (\d+) distinct states found", re.M)
_RE_DEPTH = re.compile(r"The depth of the complete state graph search is (\d+)")
_RE_INV = re.compile(r"^Error: Invariant (\S+) is violated", re.M)
_RE_PROP = re.compile(r"^Error: (?:Action property (\S+)|Temporal propert(?:y|ies) ?(\S*))", re.M)
_RE_SIMSTATES = re.compile(r"^The number of states generated: (\d+)", re.M)


def _stage(workdir: Path, modules) -> None:
    workdir.mkdir(parents=True, exist_ok=True)
    for p in SPEC_DIR.glob("*.tla"):
        shutil.copy(p, workdir / p.name)
    for extra in modules or ():
        shutil.copy(extra, workdir / Path(extra).name)


def run_tlc(
    module: str,
    cfg: str,
    workdir: Path,
    *,
    workers: int | str = "auto",
    env: dict | None = None,
    timeout: int = 1800,
    simulate: str | None = None,
    depth: int | None = None,
    seed: int | None = None,
    coverage: bool = False,
    cont: bool = False,
    deadlock: bool = False,
    dfs_queue: bool = False,
    extra_modules=None,
    java_opts: str = "",
    heap: str = "4g",
) -> TLCResult:
    """Run TLC on spec/<module>.tla with the given cfg *text* (or a cfg file name in spec/)."""
    workdir = Path(workdir)
    _stage(workdir, extra_modules)
    if "\n" not in cfg and (SPEC_DIR / cfg).exists():
        cfg_text = (SPEC_DIR / cfg).read_text()
        cfg_name = cfg
    else:
        cfg_text = cfg
        cfg_name = f"{module}_run.cfg"
    (workdir / cfg_name).write_text(cfg_text)
    meta = workdir / f"meta_{module}_{int(time.time() * 1000) % 10**9}"
    jopts = f"-Xmx{heap} -XX:+UseParallelGC " + java_opts
    if dfs_queue:
        jopts += " -Dtlc2.tool.queue.IStateQueue=StateDeque"
    cmd = ["java", *jopts.split(), "-cp", JAR, "tlc2.TLC", "-metadir", str(meta), "-noGenerateSpecTE",
           "-config", cfg_name, "-workers", str(workers)]
    if not deadlock:
        cmd.append("-deadlock")  # "-deadlock" switches deadlock checking OFF
    if simulate:
        cmd += ["-simulate", simulate]
    if depth is not None:
        cmd += ["-depth", str(depth)]
    if seed is not None:
        cmd += ["-seed", str(seed)]
    if coverage:
        cmd += ["-coverage", "1"]
    if cont:
        cmd.append("-continue")
    cmd.append(f"{module}.tla")
    e = dict(os.environ)
    e.pop("JAVA_TOOL_OPTIONS", None)
    if env:
        e.update({k: str(v) for k, v in env.items()})
    t0 = time.time()
    try:
        p = subprocess.run(cmd, cwd=workdir, env=e, capture_output=True, text=True, timeout=timeout)
        out, rc = p.stdout + p.stderr, p.returncode
    except subprocess.TimeoutExpired as ex:
        out = (ex.stdout or b"").decode() if isinstance(ex.stdout, bytes) else (ex.stdout or "")
        out += "\nTLC-TIMEOUT"
        rc = 124
    wall = time.time() - t0
    shutil.rmtree(meta, ignore_errors=True)
    res = TLCResult(module=module, cfg=cfg_text, cmd=" ".join(cmd), rc=rc, wall_s=wall, stdout=out)
    m = _RE_STATES.findall(out)
    if m:
        res.states_generated, res.distinct_states = int(m[-1][0]), int(m[-1][1])
    else:
        m2 = _RE_SIMSTATES.findall(out)
        if m2:
            res.states_generated = res.distinct_states = int(m2[-1])
    m = _RE_DEPTH.search(out)
    if m:
        res.depth = int(m.group(1))
    for m in _RE_INV.finditer(out):
        res.invariant_violations.append((m.group(1), _trace_after(out, m.end())))
    for m in _RE_PROP.finditer(out):
        name = (m.group(1) or m.group(2) or "").strip() or m.group(0)
        res.property_violations.append((name if name not in ("were", "was") else m.group(0), _trace_after(out, m.end())))
    for line in out.splitlines():
        if line.startswith("Error:") and "Invariant" not in line and "property" not in line.lower() \
                and "behavior up to this point" not in line and "constitutes a counter-example" not in line \
                and "Temporal propert" not in line:
            res.errors.append(line)
    if rc == 124:
        res.errors.append("TLC timed out")
    if "Semantic errors" in out or "Parsing or semantic analysis failed" in out or "***Parse Error***" in out:
        res.errors.append("SANY failed")
    if coverage:
        res.coverage = _parse_coverage(out)
    return res


def _trace_after(out: str, pos: int) -> list:
    """State blocks of the counterexample following an error line."""
    tail = out[pos:]
    stop = re.search(r"^(Error: (?!The behavior up to this point)|\d+ states generated|Finished in)", tail, re.M)
    if stop:
        tail = tail[: stop.start()]
    states = re.split(r"^State \d+: ", tail, flags=re.M)[1:]
    return [s.strip() for s in states]


def _parse_coverage(out: str) -> dict:
    cov = {}
    for m in re.finditer(r"^<(\w+) line \d+, col \d+ to line \d+, col \d+ of module (\w+)>: (\d+):(\d+)", out, re.M):
        name, mod, distinct, total = m.group(1), m.group(2), int(m.group(3)), int(m.group(4))
        key = f"{mod}!{name}"
        if key not in cov or cov[key][1] < total:
            cov[key] = (distinct, total)
    return cov


def require_ok(res: TLCResult, what: str = "") -> TLCResult:
    """Machinery-level guard: TLC must have run to completion (violations are NOT errors here)."""
    fatal = [e for e in res.errors if "deadlock" not in e.lower()]
    if fatal and not res.invariant_violations and not res.property_violations:
        tail = "\n".join(res.stdout.splitlines()[-40:])
        raise MachineryError(f"TLC failed {what or res.module}: {fatal[:3]}\n{tail}")
    return res


def sany(module_path: Path) -> tuple[bool, str]:
    p = subprocess.run(["java", "-cp", JAR, "tla2sany.SANY", module_path.name], cwd=module_path.parent,
                       capture_output=True, text=True, timeout=300)
    out = p.stdout + p.stderr
    ok = p.returncode == 0 and "Semantic errors" not in out and "***Parse Error***" not in out \
        and "Fatal errors" not in out and "Could not find module" not in out
    return ok, out


def tla_str(s: str) -> str:
    return json.dumps(s)


def tla_set(items) -> str:
    return "{" + ", ".join(items) + "}"


def tla_seq(items) -> str:
    return "<<" + ", ".join(items) + ">>"
