"""Deterministic stand-in for the ``ray`` module (DESIGN.md 3.3).

Registered as ``sys.modules["ray"]`` *before* resonaate is imported.  It keeps Ray's
observable contract as far as resonaate relies on it:

* ``f.remote(arg)``: the argument is pickled at submission time (so later mutation of the
  driver-side object is invisible to the job), nested object references stay references;
  the job body runs at submission (eagerly), so what a job computes never depends on the
  schedule - only the *merge order* (``ray.wait``) does, which is the thing C08 varies;
* ``ray.put(x)`` snapshots ``x``; ``ray.get(ref)`` returns a fresh unpickled copy each time
  (aliasing between driver and "worker" objects is impossible, as with real Ray);
* ``ray.wait(refs)`` returns exactly one ready reference: the one the installed schedule
  chooses (``set_chooser``); default FIFO.
* one named actor class (`.options(name=, get_if_exists=).remote()`, `handle.m.remote()`).
"""
from __future__ import annotations

import pickle
import sys
import types

_OBJECTS: dict[int, bytes] = {}
_COUNTER = [0]
LAST_REF = [None]        # the reference created last (the tracer reads it instead of an executor's private job list)
_ACTORS: dict = {}
_CHOOSER = [None]
WAIT_LOG: list = []  # (batch size, chosen index) per ray.wait call; cleared by reset()
CURRENT_JOB: list = []  # stack of names of the remote functions whose body is executing


class ObjectRef:
    __slots__ = ("id", "tag")

    def __init__(self, oid: int, tag=None):
        self.id = oid
        self.tag = tag

    def __hash__(self):
        return hash(("ref", self.id))

    def __eq__(self, other):
        return isinstance(other, ObjectRef) and other.id == self.id

    def __reduce__(self):
        return (ObjectRef, (self.id, self.tag))

    def __repr__(self):
        return f"ObjectRef({self.id})"

    def hex(self):
        return f"{self.id:032x}"


def _store(value, tag=None) -> ObjectRef:
    _COUNTER[0] += 1
    _OBJECTS[_COUNTER[0]] = pickle.dumps(value, protocol=pickle.HIGHEST_PROTOCOL)
    ref = ObjectRef(_COUNTER[0], tag)
    if tag is not None:          # a job's result (remote functions tag their references with the function name)
        LAST_REF[0] = ref
    return ref


def _copy(x):
    return pickle.loads(pickle.dumps(x, protocol=pickle.HIGHEST_PROTOCOL))


def put(value) -> ObjectRef:
    return _store(value)


def get(ref, timeout=None):
    if isinstance(ref, (list, tuple)):
        return [get(r) for r in ref]
    return pickle.loads(_OBJECTS[ref.id])


def wait(refs, num_returns=1, timeout=None, fetch_local=True):
    refs = list(refs)
    i = _CHOOSER[0](refs) if _CHOOSER[0] else 0
    WAIT_LOG.append((len(refs), i))
    return [refs[i]], refs[:i] + refs[i + 1:]


def set_chooser(fn) -> None:
    """fn(list of pending refs) -> index of the one that 'finishes' next (None = FIFO)."""
    _CHOOSER[0] = fn


class _RemoteFunction:
    def __init__(self, fn):
        self._fn = fn
        self.__name__ = getattr(fn, "__name__", "remote")
        self.__doc__ = fn.__doc__

    def remote(self, *args, **kwargs):
        args = [get(a) if isinstance(a, ObjectRef) else a for a in args]
        a, k = _copy((args, kwargs))
        CURRENT_JOB.append(self.__name__)
        try:
            result = self._fn(*a, **k)
        finally:
            CURRENT_JOB.pop()
        return _store(result, tag=self.__name__)

    def options(self, **kw):
        return self

    def __call__(self, *a, **k):
        raise TypeError("Remote functions cannot be called directly; use .remote()")


class _ActorMethod:
    def __init__(self, bound):
        self._bound = bound

    def remote(self, *args, **kwargs):
        a, k = _copy((list(args), kwargs))
        return _store(self._bound(*a, **k))


class _ActorHandle:
    def __init__(self, obj):
        self._obj = obj

    def __getattr__(self, name):
        return _ActorMethod(getattr(self._obj, name))


class _ActorClass:
    def __init__(self, cls, name=None):
        self._cls = cls
        self._name = name

    def options(self, name=None, get_if_exists=False, **kw):
        return _ActorClass(self._cls, name)

    def remote(self, *args, **kwargs):
        if self._name and self._name in _ACTORS:
            return _ACTORS[self._name]
        h = _ActorHandle(self._cls(*args, **kwargs))
        if self._name:
            _ACTORS[self._name] = h
        return h


def remote(*args, **kwargs):
    def deco(obj):
        return _ActorClass(obj) if isinstance(obj, type) else _RemoteFunction(obj)

    if len(args) == 1 and not kwargs and (callable(args[0]) or isinstance(args[0], type)):
        return deco(args[0])
    return deco


def get_actor(name):
    return _ACTORS[name]


def is_initialized():
    return True


def init(*a, **k):
    return None


def shutdown(*a, **k):
    return None


def timeline(*a, **k):
    return None


def reset() -> None:
    """Forget stored objects (call between scenarios to keep memory flat)."""
    _OBJECTS.clear()
    _ACTORS.clear()
    WAIT_LOG.clear()
    _CHOOSER[0] = None


def install():
    import os
    if os.environ.get("VERIF_REAL_RAY") == "1":
        return sys.modules.get("ray")        # thorough tier of C08: traces under the real ray
    if "ray" in sys.modules and getattr(sys.modules["ray"], "__verif_stand_in__", False):
        return sys.modules["ray"]
    m = types.ModuleType("ray")
    m.__verif_stand_in__ = True
    for n in ("put", "get", "remote", "wait", "is_initialized", "init", "shutdown", "timeline",
              "get_actor", "ObjectRef"):
        setattr(m, n, globals()[n])
    ex = types.ModuleType("ray.exceptions")
    ex.RayError = type("RayError", (Exception,), {})
    ex.GetTimeoutError = type("GetTimeoutError", (Exception,), {})
    m.exceptions = ex
    sys.modules["ray"] = m
    sys.modules["ray.exceptions"] = ex
    return m
