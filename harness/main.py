"""CLI entry: ./check <id> --tier quick|thorough [--seed N] [--replay path]; ./check --setup."""
from __future__ import annotations

import argparse
import os
import sys
from pathlib import Path


def setup() -> int:
    """Offline setup: nothing to compile; parse every TLA+ module with SANY, import smoke test."""
    from . import tlc
    import shutil, tempfile
    bad = 0
    tmp = Path(tempfile.mkdtemp(prefix="verif_setup_"))
    try:
        for p in sorted(tlc.SPEC_DIR.glob("*.tla")):
            shutil.copy(p, tmp / p.name)
        for p in sorted(tmp.glob("*.tla")):
            ok, out = tlc.sany(p)
            print(("ok   " if ok else "FAIL ") + p.name)
            if not ok:
                bad += 1
                print(out[-2000:])
    finally:
        shutil.rmtree(tmp, ignore_errors=True)
    from . import sched
    sched.install()
    import resonaate  # noqa: F401
    print("import resonaate ok from", resonaate.__file__)
    return 2 if bad else 0


def main() -> int:
    ap = argparse.ArgumentParser()
    ap.add_argument("pid", nargs="?")
    ap.add_argument("--tier", default=os.environ.get("VERIF_TIER", "quick"), choices=["quick", "thorough"])
    ap.add_argument("--seed", type=int, default=int(os.environ.get("VERIF_SEED", "0") or 0))
    ap.add_argument("--replay")
    ap.add_argument("--setup", action="store_true")
    ap.add_argument("--selftest", action="store_true")
    a = ap.parse_args()
    if a.setup:
        return setup()
    if a.selftest:
        from . import selftest
        return selftest.main(a.pid)
    if not a.pid:
        ap.error("property id required")
    from .core import run_check
    return run_check(a.pid.upper(), a.tier, a.seed, a.replay)


if __name__ == "__main__":
    sys.exit(main())
