"""Check runner: context object, evidence writer, known-findings matching, exit codes.

exit 0  property held on everything explored (KNOWN-FINDING lines allowed)
exit 1  at least one violation not listed in known_findings.json; one
        ``VIOLATION property=<id> replay=<path>`` line per distinct signature (capped)
exit 2  machinery failure (TLC/SANY/driver error) - never reported as a violation
"""
from __future__ import annotations

import fnmatch
import hashlib
import importlib
import json
import os
import shutil
import sys
import tempfile
import time
import traceback
from pathlib import Path

ROOT = Path(__file__).resolve().parent.parent
EVIDENCE_DIR = ROOT / "evidence"
REPLAY_DIR = ROOT / "replays"
KNOWN = ROOT / "known_findings.json"
REPO = Path(os.environ.get("VERIF_REPO", "/repo"))
if "VERIF_REPO" in os.environ and Path(os.environ["VERIF_REPO"]).resolve() != Path("/repo"):
    # a run against a patched scratch copy (seed evaluation) must not overwrite the evidence of /repo itself
    _alt = Path(os.environ.get("VERIF_ALT_OUT", "/tmp/verif_alt_out")) / Path(os.environ["VERIF_REPO"]).name
    EVIDENCE_DIR = _alt / "evidence"
    REPLAY_DIR = _alt / "replays"


class Ctx:
    """What a driver gets: tier, seed, scratch dir, and sinks for violations/coverage."""

    def __init__(self, pid: str, tier: str, seed: int, replay: str | None = None):
        self.pid = pid
        self.tier = tier
        self.seed = seed
        self.replay = replay
        self.quick = tier == "quick"
        self.workdir = Path(tempfile.mkdtemp(prefix=f"verif_{pid}_"))
        self.violations: list[dict] = []
        self.tlc_runs: list[dict] = []
        self.states = 0
        self.transitions = 0
        self.traces_validated = 0
        self.evaluations = 0
        self._distinct: set = set()
        self.samples: list = []
        self.assumptions: list[str] = []
        self.extra: dict = {}
        self.rule = ""
        self.t0 = time.time()
        self.cpus = os.cpu_count() or 4

    # ---- coverage bookkeeping ---------------------------------------------------------
    def add_tlc(self, res, purpose: str = "") -> None:
        """Account for a TLC run (states = distinct states, transitions = states generated)."""
        self.states += res.distinct_states
        self.transitions += res.states_generated
        d = res.summary()
        d["purpose"] = purpose
        self.tlc_runs.append(d)

    def case(self, key, nontrivial: bool = True, sample=None) -> None:
        """Count one explored case; `key` identifies it for the distinct count."""
        self.evaluations += 1
        if nontrivial:
            h = hashlib.blake2b(repr(key).encode(), digest_size=8).digest()
            self._distinct.add(h)
        if sample is not None and len(self.samples) < 6:
            self.samples.append(sample)

    def violation(self, signature: str, what: str, replay: dict) -> None:
        """Record a property violation. `signature` is the stable identity used for known findings."""
        self.violations.append({"signature": signature, "what": what, "replay": replay})

    def sub(self, name: str) -> Path:
        p = self.workdir / name
        p.mkdir(parents=True, exist_ok=True)
        return p

    def cleanup(self) -> None:
        shutil.rmtree(self.workdir, ignore_errors=True)


def load_known(pid: str) -> tuple[list[dict], list[dict]]:
    if not KNOWN.exists():
        return [], []
    data = json.loads(KNOWN.read_text())
    return ([f for f in data.get("findings", []) if f["property"] == pid],
            [f for f in data.get("fixed", []) if f["property"] == pid])


def write_evidence(ctx: Ctx, level: str, n_viol: int, n_known: int) -> None:
    EVIDENCE_DIR.mkdir(parents=True, exist_ok=True)
    cov = {
        "states": ctx.states,
        "transitions": ctx.transitions,
        "traces_validated_against_impl": ctx.traces_validated,
        "evaluations": ctx.evaluations,
        "distinct_nontrivial": len(ctx._distinct),
        "rule": ctx.rule,
        "samples": ctx.samples[:6] or ["(no sample recorded)"],
        "tlc_runs": ctx.tlc_runs,
        "checker_cmd": "tlc (tla2tools 1.8.0) via harness/tlc.py; see tlc_runs",
        "known_findings_matched": n_known,
    }
    cov.update(ctx.extra)
    ev = {
        "property_id": ctx.pid,
        "tier": ctx.tier,
        "seed": ctx.seed,
        "level": level,
        "coverage": cov,
        "assumptions": ctx.assumptions,
        "wall_s": round(time.time() - ctx.t0, 2),
        "violations": n_viol,
    }
    (EVIDENCE_DIR / f"{ctx.pid}.json").write_text(json.dumps(ev, indent=1, default=str) + "\n")


def finish(ctx: Ctx, level: str) -> int:
    findings, _fixed = load_known(ctx.pid)
    unknown: dict[str, dict] = {}
    matched: dict[str, int] = {}
    for v in ctx.violations:
        hit = None
        for f in findings:
            if fnmatch.fnmatchcase(v["signature"], f["signature"]):
                hit = f
                break
        if hit is not None:
            matched[hit["signature"]] = matched.get(hit["signature"], 0) + 1
        else:
            unknown.setdefault(v["signature"], v)
    for f in findings:
        if f["signature"] in matched:
            print(f"KNOWN-FINDING: property={ctx.pid} {f['what']} (signature {f['signature']}, "
                  f"{matched[f['signature']]} occurrence(s) this run)")
    rc = 0
    if unknown:
        REPLAY_DIR.mkdir(parents=True, exist_ok=True)
        for i, (sig, v) in enumerate(sorted(unknown.items())):
            if i >= 10:
                print(f"... {len(unknown) - 10} further distinct violation signatures suppressed")
                break
            h = hashlib.blake2b(sig.encode(), digest_size=6).hexdigest()
            path = REPLAY_DIR / f"{ctx.pid}_{h}.json"
            path.write_text(json.dumps({"property": ctx.pid, "signature": sig, "what": v["what"],
                                        "seed": ctx.seed, "tier": ctx.tier, "replay": v["replay"]},
                                       indent=1, default=str) + "\n")
            print(f"# {v['what']}")
            print(f"VIOLATION property={ctx.pid} replay={path}")
        rc = 1
    write_evidence(ctx, level, len(unknown), sum(matched.values()))
    return rc


def run_check(pid: str, tier: str, seed: int, replay: str | None) -> int:
    os.environ.setdefault("PYTHONHASHSEED", "0")
    os.environ["RESONAATE_VERIF"] = "1"
    from . import tlc as _tlc

    ctx = Ctx(pid, tier, seed, replay)
    try:
        mod = importlib.import_module(f"harness.drivers.{pid.lower()}")
        if replay:
            rp = json.loads(Path(replay).read_text())
            if not hasattr(mod, "replay"):
                print(f"replay not supported for {pid}; re-running the check instead")
                mod.run(ctx)
            else:
                mod.replay(ctx, rp)
        else:
            mod.run(ctx)
        level = getattr(mod, "LEVEL", "model_checking")
        rc = finish(ctx, level)
        print(f"{pid} tier={tier} seed={seed}: states={ctx.states} traces={ctx.traces_validated} "
              f"cases={ctx.evaluations} distinct={len(ctx._distinct)} violations={len(ctx.violations)} "
              f"wall={time.time() - ctx.t0:.1f}s -> exit {rc}")
        return rc
    except _tlc.MachineryError as ex:
        print(f"MACHINERY-ERROR {pid}: {ex}", file=sys.stderr)
        return 2
    except Exception:  # noqa: BLE001
        traceback.print_exc()
        print(f"MACHINERY-ERROR {pid}: driver crashed", file=sys.stderr)
        return 2
    finally:
        ctx.cleanup()
