"""Trace recorder for the system specification (Resonaate.tla / TraceResonaate.tla).

Wrappers are installed from outside on public method boundaries of the REAL classes
(linearization points of a sequential driver process); one event per specification action,
emitted when the method returns (or, for the engine reset, when it is entered), with the
action's arguments and cheap projected state.  Nothing in /repo is edited.

The tracer is process-global but holds its state in one `Recorder` so that many scenarios
can be traced in one process.
"""
from __future__ import annotations

import functools
from collections import Counter

import numpy as np

_REC = [None]
_INSTALLED = [False]
_ORIG = {}


def S(i):
    return f"s{i}"


def T(i):
    return f"t{i}"


def E(i):
    return f"e{i}"


class Recorder:
    """Event sink + the per-scenario context the projections need."""

    def __init__(self, app, env=None, events_meta=None):
        self.app = app
        self.events_meta = events_meta or []     # [{id, etype, t0, t1, ident, ...}] (ticks from start)
        self.applied_truth = {}                  # agent id -> [event ids applied since last merge]
        self.applied_est = {}
        self.est_delivered = []                  # ids delivered to estimate agents in this phase
        self.bias_end_emitted = False
        self.all_targets = set(app.target_agents)   # every id that ever was a target (labels stay stable)
        self.events: list[dict] = []
        self.k = 0
        self.saved_this_step = True   # the initial save belongs to "step 0"
        self.env = env                # table-driven environment or None (real geometry)
        self.primary = None           # target of the collectObservations call in progress
        self.expect_bore = {}         # (k, sensor, target) -> unit SEZ vector commanded
        self.engine = None
        self.dt = float(app.clock.dt_step)
        self.in_step = False
        self.digests = []             # per step: digest of numeric results (for schedule twins)

    def emit(self, ev, **kw):
        kw["ev"] = ev
        self.events.append(kw)

    # ---- projections -------------------------------------------------------------------
    def step_of(self, scenario_time) -> int:
        return int(round(float(scenario_time) / self.dt))

    def miss_bag(self, misses):
        c = Counter((self.step_of_jd(m.julian_date), T(m.target_id), S(m.sensor_id)) for m in misses)
        return [[k, t, s, n] for (k, t, s), n in sorted(c.items())]

    def step_of_jd(self, jd) -> int:
        sec = (float(jd) - float(self.app.clock.julian_date_start)) * 86400.0
        return int(round(sec / self.dt))

    def changes_proj(self, eng):
        out = []
        for sid, ch in sorted(eng.sensor_changes.items()):
            out.append([S(sid), self.step_of(ch["time_last_tasked"]), self.pointed_target(sid, ch["boresight"])])
        return out

    def tick_of_jd(self, jd) -> float:
        """Seconds from the scenario start (millisecond resolution: a Julian date resolves ~4e-5 s)."""
        return round((float(jd) - float(self.app.clock.julian_date_start)) * 86400.0, 3)

    @staticmethod
    def _same_dv(m, dv):
        """Several impulses of one agent at one instant are told apart by their delta-v (as configured)."""
        if dv is None or m.get("dv") is None:
            return True
        return all(abs(float(a) - float(b)) <= 1e-12 for a, b in zip(m["dv"], dv))

    def event_id(self, etype, t0_tick, ident, dv=None):
        # times are compared in seconds with a tolerance of half a second (an event half a second off a whole second must
        # not depend on which way two different roundings go); `t0f` is the configured offset in (fractional) seconds
        cands = [m for m in self.events_meta if m["etype"] == etype and m["ident"] == ident
                 and abs(float(m.get("t0f", m["t0"])) - float(t0_tick)) <= 0.5 + 1e-3]
        if len(cands) > 1:      # prefer the closest in time
            best = min(abs(float(m.get("t0f", m["t0"])) - float(t0_tick)) for m in cands)
            cands = [m for m in cands if abs(float(m.get("t0f", m["t0"])) - float(t0_tick)) <= best + 1e-3]
        if len(cands) > 1:
            cands = [m for m in cands if self._same_dv(m, dv)] or cands
        if cands:
            return cands[0]["id"]
        return f"unknown:{etype}:{t0_tick}:{ident}"

    def impulse_id(self, agent_id, sim_time, dv=None):
        return self.event_id("impulse", round(float(sim_time), 3), agent_id, dv)

    def bias_proj(self):
        out = []
        for sid, sa in sorted(self.app.sensor_agents.items()):
            ids = sorted(self.event_id("sensor_time_bias", self.tick_of_jd(ev.start_time_jd), sid)
                         for ev in sa.sensor_time_bias_event_queue)
            out.append([S(sid), ids])
        return out

    def pointed_target(self, sid, boresight):
        """Which commanded pointing (this step) does this boresight equal? ("none" if no match)"""
        b = np.asarray(boresight, dtype=float).ravel()
        for (k, s, t), u in self.expect_bore.items():
            if s == sid and k == self.k and np.allclose(u, b, rtol=0, atol=1e-12):
                return T(t)
        return "none"

    def pointing_proj(self, eng):
        pts = []
        for sid in eng.sensor_list:
            sa = self.app.sensor_agents[sid]
            pts.append([S(sid), self.step_of(sa.sensors.time_last_tasked),
                        self.pointed_target(sid, sa.sensors.boresight)])
        return pts


def rec() -> Recorder | None:
    return _REC[0]


def start(app, env=None, events_meta=None) -> Recorder:
    install()
    _REC[0] = Recorder(app, env, events_meta)
    return _REC[0]


_LAST = [None]


def stop():
    r = _REC[0]
    _REC[0] = None
    if r is not None:
        _LAST[0] = r
    return r


def last():
    """The recorder of the most recently stopped trace (for audits after a crash)."""
    return _LAST[0]


def _wrap(cls, name, before=None, after=None):
    orig = getattr(cls, name)
    _ORIG[(cls, name)] = orig

    @functools.wraps(orig)
    def w(self, *a, **k):
        r = _REC[0]
        if r is not None and before:
            before(r, self, a, k)
        res = orig(self, *a, **k)
        if r is not None and after:
            after(r, self, a, k, res)
        return res

    setattr(cls, name, w)


def install():
    if _INSTALLED[0]:
        return
    _INSTALLED[0] = True
    from resonaate.parallel import agent_propagation as ap
    from resonaate.parallel import estimate_prediction as ep
    from resonaate.parallel import estimate_update as eu
    from resonaate.parallel import tasking_execution as tex
    from resonaate.parallel import tasking_reward_generation as trg
    from resonaate.physics.transforms.methods import getSlantRangeVector
    from resonaate.scenario.scenario import Scenario
    from resonaate.sensors.sensor_base import Sensor
    from resonaate.tasking.engine.centralized_engine import CentralizedTaskingEngine
    from resonaate.tasking.engine.engine_base import TaskingEngine

    # -- Scenario.stepForward ------------------------------------------------------------
    def before_step(r, self, a, k):
        if not r.saved_this_step:
            r.emit("SkipOutput")
        r.k += 1
        r.saved_this_step = False
        r.in_step = True
        r.bias_end_emitted = False
        r.est_delivered = []
        r.emit("BeginStep", k=r.k)

    def after_step(r, self, a, k, res):
        r.in_step = False

    _wrap(Scenario, "stepForward", before_step, after_step)

    # -- job merges ----------------------------------------------------------------------
    _wrap(ap.PropagateRegistration, "processResults", None,
          lambda r, self, a, k, res: r.emit(
              "CompletePropagate", a=(T if self._registrant.simulation_id in r.all_targets else S)(
                  self._registrant.simulation_id), at=r.step_of(self._registrant.time),
              applied=sorted(r.applied_truth.pop(self._registrant.simulation_id, []))))
    _wrap(ap.PropagateExecutor, "join", None, lambda r, self, a, k, res: r.emit("JoinPropagate"))
    _wrap(ep.EstPredictRegistration, "processResults", None,
          lambda r, self, a, k, res: r.emit("CompletePredict", t=T(self._registrant.simulation_id),
                                            at=r.step_of(self._registrant.time),
                                            applied=sorted(r.applied_est.pop(self._registrant.simulation_id, []))))
    _wrap(ep.EstPredictExecutor, "join", None, lambda r, self, a, k, res: r.emit("JoinPredict"))
    _wrap(eu.EstUpdateRegistration, "processResults", None,
          lambda r, self, a, k, res: r.emit(
              "CompleteUpdate", t=T(self._registrant.simulation_id),
              obs=sorted([T(o.target_id), S(o.sensor_id)] for o in self._observations)))
    _wrap(eu.EstUpdateExecutor, "join", None, lambda r, self, a, k, res: r.emit("JoinUpdate"))

    # -- engine --------------------------------------------------------------------------
    def before_assess(r, self, a, k):
        r.engine = self
        r.emit("EngineReset", e=E(self.unique_id), bias=r.bias_proj())

    _wrap(CentralizedTaskingEngine, "assess", before_assess, None)
    _wrap(trg.TaskingRewardRegistration, "processResults", None,
          lambda r, self, a, k, res: r.emit(
              "CompleteReward", t=T(a[0].estimate_id),
              row=[S(s) for s, v in zip(self._registrant.sensor_list, a[0].visibility) if v]))

    def after_decide(r, self, a, k, res):
        d = [[T(t), S(s)] for ti, t in enumerate(self.target_list) for si, s in enumerate(self.sensor_list)
             if self.decision_matrix[ti, si]]
        vis = [[T(t), S(s)] for ti, t in enumerate(self.target_list) for si, s in enumerate(self.sensor_list)
               if self.visibility_matrix[ti, si]]
        # what each (target, sensor) pair of this engine would command: the unit slant-range vector from the sensor to the
        # PREDICTED estimate, computed here in the driver from the agents' current states (works with real Ray as well)
        for t_ in self.target_list:
            est = r.app.estimate_agents.get(t_)
            for s_ in self.sensor_list:
                sa = r.app.sensor_agents.get(s_)
                if est is None or sa is None:
                    continue
                sez = getSlantRangeVector(sa.eci_state, est.eci_state, sa.datetime_epoch)
                r.expect_bore[(r.k, s_, t_)] = np.asarray(sez[:3], dtype=float) / np.linalg.norm(sez[:3])
        r.emit("Decide", decision=d, vis=vis)

    _wrap(CentralizedTaskingEngine, "generateTasking", None, after_decide)

    def after_exec(r, self, a, k, res):
        eng = self._registrant
        result = a[0]
        now = float(r.app.clock.time)
        prim = [S(o.sensor_id) for o in result.observations if o.target_id == result.target_id]
        ser = sorted([T(o.target_id), S(o.sensor_id)] for o in result.observations if o.target_id != result.target_id)
        slew = [S(i["sensor_id"]) for i in result.sensor_info_list if float(i["time_last_tasked"]) == now]
        r.emit("CompleteExec", t=T(result.target_id), slew=sorted(slew), hit=sorted(prim), ser=ser,
               obs=sorted([T(o.target_id), S(o.sensor_id)] for o in eng.observations),
               miss=r.miss_bag([m for m in eng._saved_missed_observations if r.step_of_jd(m.julian_date) == r.k]),
               held=r.miss_bag(eng.missed_observations),
               changes=r.changes_proj(eng))

    _wrap(tex.TaskExecutionRegistration, "processResults", None, after_exec)

    def after_reset(r, self, a, k, res):
        if not r.in_step or r.engine is not self:
            return
        r.emit("ApplyChanges", pointing=r.pointing_proj(self))
        r.emit("NextEngine")
        r.engine = None

    _wrap(TaskingEngine, "resetHandles", None, after_reset)

    # -- what each job commanded (runs inside the job body; the stand-in runs jobs in-process) ---
    orig_collect = Sensor.collectObservations
    _ORIG[(Sensor, "collectObservations")] = orig_collect

    @functools.wraps(orig_collect)
    def collect(self, estimate_eci, target_agent, background_agents):
        r = _REC[0]
        if r is not None:
            r.primary = target_agent.simulation_id
            if r.env is not None and not r.env.serendipity:
                background_agents = []
        return orig_collect(self, estimate_eci, target_agent, background_agents)

    Sensor.collectObservations = collect

    # -- events ---------------------------------------------------------------------------
    import resonaate.scenario.scenario as scen_mod
    from resonaate.agents.estimate_agent import EstimateAgent
    from resonaate.agents.sensing_agent import SensingAgent
    from resonaate.data import events as ev_mod
    from resonaate.data.events import EventScope
    from resonaate.dynamics.integration_events import scheduled_impulse as imp_mod
    from resonaate.scenario.clock import ScenarioClock

    from . import sched as _sched

    def ident_of(event):
        et = event.event_type
        if et in ("target_addition", "sensor_addition", "agent_removal"):
            return event.agent_id
        return event.scope_instance_id

    def after_handle(r, self, a, k, res):
        inst = a[0]
        dv = [self.thrust_vec_0, self.thrust_vec_1, self.thrust_vec_2] if self.event_type == "impulse" else None
        eid = r.event_id(self.event_type, r.tick_of_jd(self.start_time_jd), ident_of(self), dv)
        if isinstance(inst, EstimateAgent):
            r.est_delivered.append(eid)
            return
        r.all_targets |= set(r.app.target_agents)
        if self.event_type in ("target_addition", "sensor_addition", "agent_removal"):
            is_t = self.event_type == "target_addition" or getattr(self, "agent_type", "") == "target"
            handler = (T if is_t else S)(self.agent_id)
        elif self.event_type == "task_priority":
            handler = E(inst.unique_id)
        elif self.event_type == "sensor_time_bias":
            handler = S(inst.simulation_id)
        else:
            handler = T(inst.simulation_id) if inst.simulation_id in r.all_targets else S(inst.simulation_id)
        r.emit("Deliver", id=eid, handler=handler)

    def all_subclasses(c):
        out = []
        for sc in c.__subclasses__():
            out.append(sc)
            out.extend(all_subclasses(sc))
        return out

    for cls in set(all_subclasses(ev_mod.Event)):
        if "handleEvent" in cls.__dict__:
            _wrap(cls, "handleEvent", None, after_handle)

    orig_hre = scen_mod.handleRelevantEvents

    def hre(scope_instance, database, event_scope, *a, **k):
        res = orig_hre(scope_instance, database, event_scope, *a, **k)
        r = _REC[0]
        if r is not None and event_scope == EventScope.SCENARIO_STEP:
            r.emit("EndStepEvents")
        return res

    scen_mod.handleRelevantEvents = hre
    _wrap(ScenarioClock, "ticToc", None,
          lambda r, self, a, k, res: r.emit("TicToc", k=r.step_of(self.time), estq=sorted(r.est_delivered)))

    def before_prune_bias(r, self, a, k):
        if not r.bias_end_emitted and r.in_step:
            r.bias_end_emitted = True
            r.emit("EndBiasEvents")

    _wrap(SensingAgent, "pruneTimeBiasEvents", before_prune_bias, None)
    _wrap(trg.TaskingRewardExecutor, "join", None, lambda r, self, a, k, res: r.emit("RewardJoined"))

    def after_dv(r, self, a, k, res):
        job = _sched.CURRENT_JOB[-1] if _sched.CURRENT_JOB else None
        eid = r.impulse_id(self.agent_id, self.time, [float(x) for x in self.thrust[3:6]])
        if job == "asyncPropagate":
            r.applied_truth.setdefault(self.agent_id, []).append(eid)
        elif job == "asyncPredict":
            r.applied_est.setdefault(self.agent_id, []).append(eid)

    for cls in (imp_mod.ScheduledECIImpulse, imp_mod.ScheduledNTWImpulse):
        _wrap(cls, "getStateChange", None, after_dv)

    # -- output --------------------------------------------------------------------------
    def after_save(r, self, a, k, res):
        r.saved_this_step = True
        r.emit("SaveOutput", k=r.k, rows=audit_db(r, self))

    _wrap(Scenario, "saveDatabaseOutput", None, after_save)


def audit_db(r: Recorder, app) -> dict:
    """Bags of row keys of every output table, by plain SQL (not through the ORM classes)."""
    from sqlalchemy import text
    db = app.database
    out = {}
    with db._getSessionScope() as session:  # noqa: SLF001
        def q(sql):
            return session.execute(text(sql)).fetchall()
        jd0 = float(app.clock.julian_date_start)

        def kof(jd):
            return int(round((float(jd) - jd0) * 86400.0 / r.dt))
        out["epochs"] = sorted(kof(row[0]) for row in q("SELECT julian_date FROM epochs"))
        r.all_targets |= set(app.target_agents)
        tids = r.all_targets
        out["truth"] = sorted([kof(jd), (T if aid in tids else S)(aid), n] for jd, aid, n in
                              q("SELECT julian_date, agent_id, COUNT(*) FROM truth_ephemerides GROUP BY julian_date, agent_id"))
        out["est"] = sorted([kof(jd), T(aid), n] for jd, aid, n in
                            q("SELECT julian_date, agent_id, COUNT(*) FROM estimate_ephemerides GROUP BY julian_date, agent_id"))
        out["obs"] = sorted([kof(jd), T(t), S(s), n] for jd, t, s, n in
                            q("SELECT julian_date, target_id, sensor_id, COUNT(*) FROM observations GROUP BY julian_date, target_id, sensor_id"))
        out["miss"] = sorted([kof(jd), T(t), S(s), n] for jd, t, s, n in
                             q("SELECT julian_date, target_id, sensor_id, COUNT(*) FROM missed_observations GROUP BY julian_date, target_id, sensor_id"))
        out["tasks"] = sorted([kof(jd), T(t), S(s), n] for jd, t, s, n in
                              q("SELECT julian_date, target_id, sensor_id, COUNT(*) FROM tasks GROUP BY julian_date, target_id, sensor_id"))
        # --- value-level clauses of C09 (booleans / counts, evaluated here with plain SQL) ---
        from datetime import datetime as _dt
        eps = q("SELECT julian_date, timestampISO FROM epochs ORDER BY julian_date")
        ok = len({e[0] for e in eps}) == len(eps) and len({e[1] for e in eps}) == len(eps)
        for (jd, ts), nxt in zip(eps, eps[1:] + [None]):
            t = _dt.fromisoformat(ts)
            jd_ind = (t - _dt(2000, 1, 1, 12)).total_seconds() / 86400.0 + 2451545.0   # independent of resonaate
            ok = ok and abs(jd_ind - float(jd)) < 1e-8
            if nxt is not None:
                ok = ok and float(nxt[0]) > float(jd) and _dt.fromisoformat(nxt[1]) > t
        # "strictly increasing" also in ROW order (what a reader without ORDER BY sees)
        by_id = [float(r[0]) for r in q("SELECT julian_date FROM epochs ORDER BY id")]
        ok = ok and all(b > a for a, b in zip(by_id, by_id[1:]))
        out["epochs_ok"] = bool(ok)
        dangling = 0
        for tbl, cols in (("truth_ephemerides", ["agent_id"]), ("estimate_ephemerides", ["agent_id"]),
                          ("observations", ["sensor_id", "target_id"]), ("missed_observations", ["sensor_id", "target_id"]),
                          ("tasks", ["sensor_id", "target_id"]), ("detected_maneuvers", ["target_id"]),
                          ("filterstep", ["target_id"])):
            dangling += q(f"SELECT COUNT(*) FROM {tbl} x LEFT JOIN epochs e ON x.julian_date = e.julian_date "
                          f"WHERE e.julian_date IS NULL")[0][0]
            for c in cols:
                dangling += q(f"SELECT COUNT(*) FROM {tbl} x WHERE x.{c} NOT IN (SELECT unique_id FROM agents)")[0][0]
        out["dangling"] = int(dangling)
        out["dup_rows"] = int(sum(n - 1 for (n,) in q("SELECT COUNT(*) FROM detected_maneuvers GROUP BY julian_date, target_id HAVING COUNT(*) > 1"))
                              + sum(n - 1 for (n,) in q("SELECT COUNT(*) FROM filterstep GROUP BY julian_date, target_id HAVING COUNT(*) > 1")))
        out["n_maneuver_rows"] = int(q("SELECT COUNT(*) FROM detected_maneuvers")[0][0])
        out["n_filterstep_rows"] = int(q("SELECT COUNT(*) FROM filterstep")[0][0])
        # read-back: the rows of the current epoch equal the states the simulation holds (exact float equality)
        rb = True
        for aid, ag in list(app.target_agents.items()) + list(app.sensor_agents.items()):
            rows = q(f"SELECT pos_x_km, pos_y_km, pos_z_km, vel_x_km_p_sec, vel_y_km_p_sec, vel_z_km_p_sec, julian_date "
                     f"FROM truth_ephemerides WHERE agent_id = {int(aid)}")
            cur = [row for row in rows if kof(row[6]) == r.k]
            held = [float(x) for x in np.asarray(ag.eci_state, float).ravel()]
            rb = rb and len(cur) == 1 and [float(x) for x in cur[0][:6]] == held
        if not app.scenario_config.propagation.truth_simulation_only:
            ccols = ", ".join(f"covar_{i}{j}" for i in range(6) for j in range(6))
            for aid, est in app.estimate_agents.items():
                rows = q(f"SELECT pos_x_km, pos_y_km, pos_z_km, vel_x_km_p_sec, vel_y_km_p_sec, vel_z_km_p_sec, {ccols}, julian_date "
                         f"FROM estimate_ephemerides WHERE agent_id = {int(aid)}")
                cur = [row for row in rows if kof(row[-1]) == r.k]
                held = [float(x) for x in np.asarray(est.state_estimate, float).ravel()] + \
                       [float(x) for x in np.asarray(est.error_covariance, float).ravel()]
                rb = rb and len(cur) == 1 and [float(x) for x in cur[0][:-1]] == held
        out["readback"] = bool(rb)
    return out


class TableEnv:
    """Table-driven environment: visibility / slew / hit outcomes per (step, target, sensor).

    Everything else (engine, executors, registrations, collectObservations, scenario, DB) is
    the real code.  Tables are filled lazily from a seeded RNG unless preset.
    """

    def __init__(self, rng, p_vis=0.7, p_slew=0.8, p_hit=0.5, serendipity=False, preset=None):
        self.rng = rng
        self.p = {"vis": p_vis, "slew": p_slew, "hit": p_hit, "ser": 0.3}
        self.tab = dict(preset or {})
        self.serendipity = serendipity

    def get(self, kind, k, t, s):
        key = (kind, k, t, s)
        if key not in self.tab:
            self.tab[key] = self.rng.random() < self.p[kind]
        return self.tab[key]


_ENV_PATCHED = [False]


def install_table_env():
    """Patch predictObservation / canSlew / attemptObservation to consult the recorder's TableEnv."""
    if _ENV_PATCHED[0]:
        return
    _ENV_PATCHED[0] = True
    import resonaate.parallel.tasking_reward_generation as trg
    from resonaate.common.utilities import getTypeString
    from resonaate.data.observation import MissedObservation, Observation
    from resonaate.sensors.sensor_base import Sensor

    real_predict = trg.predictObservation
    real_slew = Sensor.canSlew
    real_attempt = Sensor.attemptObservation

    def mk_obs(sensor, target_agent, noisy):
        return Observation.fromMeasurement(
            epoch_jd=sensor.host.julian_date_epoch, target_id=target_agent.simulation_id,
            tgt_eci_state=target_agent.eci_state, sensor_id=sensor.host.simulation_id,
            sensor_eci=sensor.host.eci_state, sensor_type=getTypeString(sensor),
            measurement=sensor.measurement if hasattr(sensor, "measurement") else sensor._measurement,  # noqa: SLF001
            noisy=noisy)

    def predict(sensor_agent, estimate_agent):
        r = _REC[0]
        if r is None or r.env is None:
            return real_predict(sensor_agent, estimate_agent)
        if not r.env.get("vis", r.k, estimate_agent.simulation_id, sensor_agent.simulation_id):
            return None
        return mk_obs(sensor_agent.sensors, estimate_agent, False)

    trg.predictObservation = predict

    def can_slew(self, sez):
        r = _REC[0]
        if r is None or r.env is None:
            return real_slew(self, sez)
        return r.env.get("slew", r.k, r.primary, self.host.simulation_id)

    Sensor.canSlew = can_slew

    def attempt(self, target_agent, pointing_sez):
        r = _REC[0]
        if r is None or r.env is None:
            return real_attempt(self, target_agent, pointing_sez)
        tid = target_agent.simulation_id
        if tid == r.primary:
            ok = r.env.get("hit", r.k, tid, self.host.simulation_id)
        else:
            ok = r.env.get("ser", r.k, tid, self.host.simulation_id)
        if ok:
            return mk_obs(self, target_agent, True)
        return MissedObservation(julian_date=self.host.julian_date_epoch, sensor_type=getTypeString(self),
                                 sensor_id=self.host.simulation_id, target_id=tid,
                                 sensor_eci=self.host.eci_state, reason="Line of Sight")

    Sensor.attemptObservation = attempt
