"""Build and run REAL resonaate scenarios under the deterministic scheduler stand-in.

    from harness import scenario_util as su
    cfg = su.base_config(start="2018-12-01T12:00:07", step=60, n_steps=5, n_targets=2, n_sensors=3)
    app = su.build(cfg)                  # real ScenarioBuilder + Scenario, in-memory SQLite
    app.stepForward(); app.saveDatabaseOutput()
    su.run_for(app, seconds)             # real Scenario.propagateTo(start + elapsed + seconds)

Everything here uses only public configuration keys of resonaate.
"""
from __future__ import annotations

import copy
import logging
import os
from datetime import datetime, timedelta

from . import sched

sched.install()
logging.disable(logging.CRITICAL)

CFG_DIR = os.path.join(os.environ.get("VERIF_REPO", "/repo"), "tests/datafiles/json/config")
_BASE = {}


def _parsed(name: str) -> dict:
    if name not in _BASE:
        from resonaate.scenario.config import ScenarioConfig
        _BASE[name] = ScenarioConfig.parseConfigFile(os.path.join(CFG_DIR, "init_messages", name))
    return copy.deepcopy(_BASE[name])


def iso(dt: datetime) -> str:
    return dt.strftime("%Y-%m-%dT%H:%M:%S.%f") + "Z"        # microseconds kept (sub-millisecond event times)


def parse_iso(s: str) -> datetime:
    return datetime.strptime(s.rstrip("Z")[:19], "%Y-%m-%dT%H:%M:%S")


def target_cfg(tid: int, sma_km: float = 7000.0, inc_deg: float = 51.0, ta_deg: float = 0.0,
               raan_deg: float = 0.0, ecc: float = 0.001, name: str | None = None) -> dict:
    """A spacecraft target described by classical elements (public config keys)."""
    return {"name": name or f"tgt{tid}", "id": tid, "platform": {"type": "spacecraft"},
            "state": {"type": "coe", "semi_major_axis": sma_km, "eccentricity": ecc, "inclination": inc_deg,
                      "right_ascension": raan_deg, "argument_periapsis": 10.0, "true_anomaly": ta_deg}}


def eci_target_cfg(tid: int, pos, vel, name: str | None = None) -> dict:
    return {"name": name or f"tgt{tid}", "id": tid, "platform": {"type": "spacecraft"},
            "state": {"type": "eci", "position": list(pos), "velocity": list(vel)}}


def base_config(start="2018-12-01T12:00:00", step: int = 60, n_steps: int = 3, out_step: int | None = None,
                n_targets: int = 1, n_sensors: int = 3, decision: str = "MunkresDecision",
                truth_only: bool = False, model: str = "two_body", template: str = "main_init.json",
                extra_targets: list | None = None, seed: int | None = 1, events: list | None = None) -> dict:
    """A small scenario dict derived from the repository's own test configuration files."""
    d = _parsed(template)
    t0 = parse_iso(start) if isinstance(start, str) else start
    d["time"] = {"start_timestamp": iso(t0), "stop_timestamp": iso(t0 + timedelta(seconds=step * n_steps)),
                 "physics_step_sec": step, "output_step_sec": out_step or step}
    eng = d["engines"][0]
    eng["decision"] = {"name": decision}
    if decision == "RandomDecision":
        eng["decision"]["seed"] = seed or 0
    eng["targets"] = eng["targets"][:n_targets] + list(extra_targets or [])
    if decision == "AllVisibleDecision":
        # the all-visible policy is only accepted for networks of advanced radars
        eng["sensors"] = [x for x in eng["sensors"] if x["sensor"]["type"] == "adv_radar"]
    eng["sensors"] = eng["sensors"][:n_sensors]
    d["engines"] = [eng]
    d.setdefault("propagation", {})
    d["propagation"]["propagation_model"] = model
    d["propagation"]["truth_simulation_only"] = truth_only
    d.setdefault("estimation", {}).setdefault("sequential_filter", {"name": "unscented_kalman_filter"})
    d["estimation"]["sequential_filter"]["dynamics_model"] = model
    d.setdefault("noise", {})["random_seed"] = seed
    d["events"] = list(events or [])
    return d


def reset_db(path: str = "sqlite://"):
    """(Re)bind the shared database path; in-memory databases are wiped between scenarios."""
    from resonaate.data import clearDBPath, getDBConnection, setDBPath
    clearDBPath()
    setDBPath(path)
    db = getDBConnection()
    if path == "sqlite://":
        db.resetData(tuple(db.VALID_DATA_TYPES.keys()))
    return db


def build(config_dict: dict, db_path: str = "sqlite://", importer_db_path: str | None = None):
    """Real ScenarioBuilder -> Scenario (same steps as buildScenarioFromConfigDict)."""
    from resonaate.scenario.config import ScenarioConfig
    from resonaate.scenario.scenario import Scenario
    from resonaate.scenario.scenario_builder import ScenarioBuilder
    sched.reset()
    reset_db(db_path)
    config = ScenarioConfig(**copy.deepcopy(config_dict))
    b = ScenarioBuilder(config, importer_db_path=importer_db_path)
    return Scenario(b.config, b.clock, b.target_agents, b.estimate_agents, b.sensor_agents, b.tasking_engines,
                    importer_db_path=importer_db_path, logger=b.logger)


def run_for(app, seconds: float):
    """Ask the real simulator to run for `seconds` from its current epoch (public propagateTo)."""
    from resonaate.physics.time.stardate import datetimeToJulianDate
    target = app.clock.datetime_epoch + timedelta(seconds=seconds)
    app.propagateTo(datetimeToJulianDate(target))


def file_db_url(path: str) -> str:
    return f"sqlite:///{os.path.abspath(path)}"
